(* HandlersProofs.v — C20: no ValidateBasic, handler or query of the front-door model panics, for
   every raw field value (unbounded integers, arbitrary lists) and every state satisfying env_inv;
   the one exception, MsgCreateAccount, is characterised exactly (K7).  The raw validation of
   distributor and minter parameters is shown to refine the well-formed decisions of Params.v and
   Minter.v. *)
From C4E Require Import Handlers.
From Coq Require Import Lia ZifyBool.
Open Scope Z_scope.

(* ---------------------------------------------------------------- monad lemmas ------------ *)
Lemma bind_np {A B} (r : outcome A) (f : A -> outcome B) :
  r <> Panic -> (forall a, r = Ok a -> f a <> Panic) -> bind r f <> Panic.
Proof. destruct r; cbn; intros H1 H2; auto; congruence. Qed.
Lemma bind_ok {A B} (r : outcome A) (f : A -> outcome B) b :
  bind r f = Ok b -> exists a, r = Ok a /\ f a = Ok b.
Proof. destruct r; cbn; intros H; try discriminate; eauto. Qed.
Lemma guard_np b : guard b <> Panic. Proof. destruct b; discriminate. Qed.
Lemma guard_ok b u : guard b = Ok u -> b = true. Proof. destruct b; [reflexivity | discriminate]. Qed.
Lemma must_np b : b = true -> must b <> Panic. Proof. intros ->; discriminate. Qed.
Lemma parse_np a : parse a <> Panic. Proof. destruct a; discriminate. Qed.
Lemma parse_ok a id : parse a = Ok id -> a = AOk id. Proof. destruct a; cbn; congruence. Qed.
Lemma ival_np i : negb (i_is_nil i) = true -> i_val i <> Panic. Proof. destruct i; cbn; [discriminate | discriminate]. Qed.
Lemma ival_ok i z : i_val i = Ok z -> i = IV z. Proof. destruct i; cbn; congruence. Qed.
Lemma dval_np d : negb (d_is_nil d) = true -> d_val d <> Panic. Proof. destruct d; cbn; discriminate. Qed.
Lemma dval_ok d z : d_val d = Ok z -> d = DV z. Proof. destruct d; cbn; congruence. Qed.
Lemma unit_of_np {A} (r : outcome A) : r <> Panic -> unit_of r <> Panic.
Proof. intros H; unfold unit_of; apply bind_np; [exact H | discriminate]. Qed.
Lemma new_coin_np d z : denom_ok d = true -> 0 <= z -> new_coin d (IV z) <> Panic.
Proof. intros Hd Hz; unfold new_coin; cbn. rewrite Hd. replace (0 <=? z) with true by lia. discriminate. Qed.

Lemma gauge_np z : gauge z <> Panic.
Proof. unfold gauge. destruct (is_int64 z); discriminate. Qed.
Lemma gauges_np l : gauges l <> Panic.
Proof. induction l as [|z t IH]; cbn [gauges]; [discriminate|]. apply bind_np; [apply gauge_np | intros _ _; exact IH]. Qed.
Lemma deferred_np {A} d (body : outcome A) : d <> Panic -> body <> Panic -> deferred d body <> Panic.
Proof. unfold deferred. destruct body; destruct d; congruence. Qed.

(* one structural step of a no-panic goal; facts from passed guards are normalised on the way *)
Ltac np_step :=
  match goal with
  | H : guard _ = Ok _ |- _ => apply guard_ok in H
  | H : i_val ?i = Ok ?z |- _ => first [ is_var i; apply ival_ok in H; subst i | cbn [i_val] in H; injection H as H; try subst z | apply ival_ok in H ]
  | H : d_val ?i = Ok ?z |- _ => first [ is_var i; apply dval_ok in H; subst i | cbn [d_val] in H; injection H as H; try subst z | apply dval_ok in H ]
  | H : parse _ = Ok _ |- _ => apply parse_ok in H
  | |- bind _ _ <> Panic => apply bind_np; [ | let a := fresh "a" in let H := fresh "Hb" in intros a H ]
  | |- unit_of _ <> Panic => apply unit_of_np
  | |- guard _ <> Panic => apply guard_np
  | |- gauge _ <> Panic => apply gauge_np
  | |- gauges _ <> Panic => apply gauges_np
  | |- deferred _ _ <> Panic => apply deferred_np
  | |- parse _ <> Panic => apply parse_np
  | |- Ok _ <> Panic => discriminate
  | |- Err <> Panic => discriminate
  | H : negb (i_is_nil ?i) = true |- i_val ?i <> Panic => exact (ival_np _ H)
  | H : negb (d_is_nil ?i) = true |- d_val ?i <> Panic => exact (dval_np _ H)
  | |- i_val (IV _) <> Panic => discriminate
  | |- d_val (DV _) <> Panic => discriminate
  | H : ?b = true |- must ?b <> Panic => exact (must_np _ H)
  end.
Ltac np := repeat np_step.
Ltac binds H := repeat match type of H with bind _ _ = Ok _ => let x := fresh "x" in let Hx := fresh "Hx" in apply bind_ok in H as (x & Hx & H) end.

(* ---------------------------------------------------------------- coins ------------------- *)
Lemma coins_any_negative_np l : coins_any_nil l = false -> coins_any_negative l <> Panic.
Proof.
  induction l as [|[d a] t IH]; cbn [coins_any_negative coins_any_nil existsb snd]; [discriminate|].
  intros H. apply orb_false_iff in H as [Ha Ht]. destruct a as [|z]; [discriminate|]. cbn [i_val bind].
  destruct (z <? 0); [discriminate | auto].
Qed.
Lemma coins_validate_from_np low l : coins_any_nil l = false -> coins_validate_from low l <> Panic.
Proof.
  revert low; induction l as [|[d a] t IH]; intros low; cbn [coins_validate_from coins_any_nil existsb snd]; [discriminate|].
  intros H. apply orb_false_iff in H as [Ha Ht]. destruct a as [|z]; [discriminate|].
  destruct (negb (denom_ok d)); [discriminate|]. destruct (denom_id d <=? low); [discriminate|].
  cbn [i_val bind]. destruct (z <=? 0); [discriminate | auto].
Qed.
Lemma coins_validate_np l : coins_any_nil l = false -> coins_validate l <> Panic.
Proof. apply coins_validate_from_np. Qed.
Lemma coins_positive_valid_np b l : coins_any_nil l = false -> coins_positive_valid b l <> Panic.
Proof.
  induction l as [|[d a] t IH]; cbn [coins_positive_valid coins_any_nil existsb snd]; [discriminate|].
  intros H. apply orb_false_iff in H as [Ha Ht]. destruct a as [|z]; [discriminate|]. cbn [i_val bind].
  destruct (negb (denom_ok d) || (z <=? 0)); [discriminate | auto].
Qed.
Lemma coins_valid_sorted_np l : coins_any_nil l = false -> coins_valid_sorted l <> Panic.
Proof. apply coins_positive_valid_np. Qed.
Lemma raised_not_nil l : coins_any_nil (map raise_coin l) = false.
Proof. induction l as [|c t IH]; cbn; auto. Qed.
Lemma negb_true_false b : negb b = true -> b = false. Proof. destruct b; [discriminate | reflexivity]. Qed.

(* ---------------------------------------------------------------- cfevesting -------------- *)
Lemma validate_create_pool_np owner name amount dur : validate_create_pool owner name amount dur <> Panic.
Proof. unfold validate_create_pool; np. Qed.
Lemma validate_create_pool_ok owner name amount dur a :
  validate_create_pool owner name amount dur = Ok a -> exists z, amount = IV z /\ 0 <= z /\ owner = AOk a.
Proof.
  unfold validate_create_pool; intros H. binds H. np. eexists; split; [reflexivity|]. split; [lia | assumption].
Qed.

Lemma solvent_or_absent e a : env_inv e -> e_solvent e a || (e_kind e a =? 0) = true.
Proof.
  intros (_ & _ & _ & Hs). destruct (e_kind e a =? 0) eqn:Hk; [apply orb_true_r|].
  rewrite Hs by lia. reflexivity.
Qed.

Lemma h_create_pool_np e owner name amount dur vt : env_inv e -> h_create_pool e owner name amount dur vt <> Panic.
Proof.
  intros Hinv. unfold h_create_pool. np; try apply validate_create_pool_np;
    match goal with H : validate_create_pool _ _ _ _ = Ok _ |- _ => apply validate_create_pool_ok in H as (z & Ez & Hz & Eo); inversion Ez; subst end; np.
  - apply new_coin_np; [apply Hinv | exact Hz].
  - apply must_np. rewrite <- orb_assoc, (solvent_or_absent e _ Hinv). apply orb_true_r.
Qed.

Lemma withdrawable_nonneg p : pool_ok p = true -> 0 <= withdrawable p.
Proof. unfold pool_ok, withdrawable; destruct (pl_matured p); lia. Qed.
Lemma total_nonneg ps : forallb pool_ok ps = true -> 0 <= zsum (map withdrawable ps).
Proof.
  induction ps as [|p t IH]; cbn [forallb map zsum]; [lia|]. intros H; apply andb_true_iff in H as [Hp Ht].
  pose proof (withdrawable_nonneg p Hp). specialize (IH Ht). lia.
Qed.
Lemma after_withdraw_ok p : pool_ok p = true -> pool_ok (after_withdraw p) = true.
Proof. unfold pool_ok, after_withdraw, withdrawable; cbn [pl_cur]; destruct (pl_matured p); lia. Qed.
Lemma after_withdraw_all_ok ps : forallb pool_ok ps = true -> forallb pool_ok (map after_withdraw ps) = true.
Proof.
  induction ps as [|p t IH]; cbn [forallb map]; [reflexivity|]. intros H; apply andb_true_iff in H as [Hp Ht].
  rewrite after_withdraw_ok by exact Hp. auto.
Qed.

Lemma k_withdraw_all_np e owner : env_inv e -> k_withdraw_all e owner <> Panic.
Proof.
  intros Hinv. unfold k_withdraw_all. np. destruct (e_pools e a) as [ps|] eqn:Hp; [|discriminate].
  destruct ps as [|p t]; [discriminate|].
  assert (Hok : forallb pool_ok (p :: t) = true) by (destruct Hinv as (_ & Hpools & _); eapply Hpools; eauto).
  pose proof (total_nonneg _ Hok) as Ht.
  np; try (apply new_coin_np; [apply Hinv | exact Ht]).
  - destruct (0 <? zsum (map withdrawable (p :: t))); np. apply new_coin_np; [apply Hinv | exact Ht].
  - destruct (0 <? zsum (map withdrawable (p :: t))); np.
Qed.
Lemma k_withdraw_all_ok e owner w :
  env_inv e -> k_withdraw_all e owner = Ok w -> forallb pool_ok (snd w) = true.
Proof.
  intros Hinv. unfold k_withdraw_all. intros H. apply bind_ok in H as (a & Ha & H).
  destruct (e_pools e a) as [ps|] eqn:Hp; [|discriminate]. destruct ps as [|p t]; [discriminate|].
  binds H. injection H as <-. cbn [snd].
  apply (after_withdraw_all_ok (p :: t)). destruct Hinv as (_ & Hpools & _); eapply Hpools; eauto.
Qed.

Lemma find_last_pool_ok n ps acc p :
  forallb pool_ok ps = true -> (forall q, acc = Some q -> pool_ok q = true) ->
  find_last_pool n ps acc = Some p -> pool_ok p = true.
Proof.
  revert acc; induction ps as [|x t IH]; cbn [find_last_pool forallb]; intros acc Hps Hacc Hf; [eauto|].
  apply andb_true_iff in Hps as [Hx Ht]. eapply IH; [exact Ht | | exact Hf].
  intros q Hq. destruct (pool_named n x); [injection Hq as <-; exact Hx | eauto].
Qed.

Lemma dec_mul_le_self z f : 0 <= z -> 0 <= f <= P -> 0 <= dec_mul (dec_of_int z) f <= dec_of_int z.
Proof.
  intros Hz Hf. unfold dec_mul, dec_of_int. pose proof P_pos as HP.
  pose proof (chop_round_bound (z * P * f)) as Hb.
  assert (H : 0 <= z * P * f) by nia.
  pose proof (chop_round_nonneg' (z * P * f) H) as Hn. split; [exact Hn|].
  assert (z * P * f <= z * P * P) by nia. nia.
Qed.

Lemma k_new_vesting_account_np e to z free : env_inv e -> 0 <= z -> 0 <= free <= P -> k_new_vesting_account e to z free <> Panic.
Proof.
  intros Hinv Hz Hf. unfold k_new_vesting_account. np.
  - apply new_coin_np; [apply Hinv | exact Hz].
  - apply new_coin_np; [apply Hinv|]. pose proof (dec_mul_le_self z free Hz Hf) as Hm.
    unfold dec_trunc_int. rewrite chop_trunc_nonneg by lia. apply Z.div_pos; [lia | exact P_pos].
Qed.

Lemma validate_send_to_vesting_np owner to name amount : validate_send_to_vesting owner to name amount <> Panic.
Proof. unfold validate_send_to_vesting; np. Qed.
Lemma validate_send_to_vesting_ok owner to name amount ot :
  validate_send_to_vesting owner to name amount = Ok ot -> exists z, amount = IV z /\ 0 <= z.
Proof.
  unfold validate_send_to_vesting; intros H. binds H. np. eexists; split; [reflexivity | lia].
Qed.

Lemma h_send_to_vesting_np e owner to name amount restart : env_inv e -> h_send_to_vesting e owner to name amount restart <> Panic.
Proof.
  intros Hinv. unfold h_send_to_vesting. np; try apply validate_send_to_vesting_np; try (apply k_withdraw_all_np; exact Hinv).
  match goal with H : validate_send_to_vesting _ _ _ _ = Ok _ |- _ => apply validate_send_to_vesting_ok in H as (z & Ez & Hz); inversion Ez; subst end.
  match goal with H : k_withdraw_all _ _ = Ok ?w |- _ => pose proof (k_withdraw_all_ok e owner w Hinv H) as Hps; destruct (snd w) as [|p0 t0]; [discriminate|] end.
  destruct (find_last_pool name (p0 :: t0) None) as [p|] eqn:Hf; [|discriminate].
  np. destruct (e_vtype e (pl_vt p)) as [free|] eqn:Hvt; [|discriminate].
  apply k_new_vesting_account_np; [exact Hinv | exact Hz |].
  destruct Hinv as (_ & _ & Hfree & _). eapply Hfree; eauto.
Qed.

Lemma validate_cva_np from to amt s en : validate_create_vesting_account from to amt s en <> Panic.
Proof.
  unfold validate_create_vesting_account. destruct amt as [|l]; [discriminate|]. np.
  apply coins_any_negative_np. apply negb_true_false; assumption.
Qed.
Lemma validate_cva_ok from to amt s en ft :
  validate_create_vesting_account from to amt s en = Ok ft -> (fst ft =? snd ft) = false /\ coins_any_nil (coins_list amt) = false.
Proof.
  unfold validate_create_vesting_account. destruct amt as [|l]; [discriminate|]. intros H. binds H. np.
  injection H as <-. cbn [fst snd coins_list]. split; apply negb_true_false; assumption.
Qed.

Lemma h_create_vesting_account_np e from to amt s en : env_inv e -> h_create_vesting_account e from to amt s en <> Panic.
Proof.
  intros Hinv. unfold h_create_vesting_account. np; try apply validate_cva_np;
    match goal with H : validate_create_vesting_account _ _ _ _ _ = Ok _ |- _ => apply validate_cva_ok in H as [Hne Hnil] end.
  - apply coins_valid_sorted_np; exact Hnil.
  - destruct (coins_list amt) as [|c t]; [discriminate|]. np.
    apply must_np. rewrite Hne. cbn [negb andb]. apply solvent_or_absent; exact Hinv.
Qed.

Lemma validate_addresses_np from to : validate_addresses from to <> Panic.
Proof. unfold validate_addresses; np. Qed.
Lemma validate_split_np from to amt : validate_split from to amt <> Panic.
Proof.
  unfold validate_split. destruct amt as [|l]; [discriminate|]. np; try apply validate_addresses_np.
  apply coins_validate_np. apply negb_true_false; assumption.
Qed.

Lemma k_split_coins_np e from to l : env_inv e -> k_split_coins e from to l <> Panic.
Proof.
  intros Hinv. unfold k_split_coins. np.
  - apply coins_validate_np. apply negb_true_false; assumption.
  - apply must_np. destruct Hinv as (_ & _ & _ & Hs). apply Hs.
    match goal with H : negb (e_kind e from =? 0) = true |- _ => apply negb_true_false in H; lia end.
Qed.

Lemma h_split_np e from to amt : env_inv e -> h_split e from to amt <> Panic.
Proof. intros Hinv. unfold h_split. np; [apply validate_split_np | apply k_split_coins_np; exact Hinv]. Qed.
Lemma h_move_np e from to : env_inv e -> h_move e from to <> Panic.
Proof. intros Hinv. unfold h_move. np; [apply validate_addresses_np | apply k_split_coins_np; exact Hinv]. Qed.

Lemma validate_denoms_np seen ds : validate_denoms seen ds <> Panic.
Proof. revert seen; induction ds as [|d t IH]; intros seen; cbn [validate_denoms]; np. apply IH. Qed.
Lemma validate_denoms_ok seen ds u : validate_denoms seen ds = Ok u -> forallb denom_ok ds = true.
Proof.
  revert seen; induction ds as [|d t IH]; intros seen; cbn [validate_denoms forallb]; [reflexivity|]. intros H.
  binds H. np. apply andb_true_iff; split; [assumption | eapply IH; eauto].
Qed.
Lemma validate_move_by_denoms_np from to ds : validate_move_by_denoms from to ds <> Panic.
Proof. unfold validate_move_by_denoms. np; [apply validate_addresses_np | apply validate_denoms_np]. Qed.
Lemma validate_move_by_denoms_ok from to ds ft : validate_move_by_denoms from to ds = Ok ft -> forallb denom_ok ds = true.
Proof.
  unfold validate_move_by_denoms. intros H. binds H.
  match goal with H : validate_denoms _ _ = Ok _ |- _ => eapply validate_denoms_ok; exact H end.
Qed.
Lemma collect_denoms_np locked ds acc : forallb denom_ok ds = true -> collect_denoms locked ds acc <> Panic.
Proof.
  revert acc; induction ds as [|d t IH]; intros acc; cbn [collect_denoms forallb]; [discriminate|].
  intros H; apply andb_true_iff in H as [Hd Ht]. np.
  - unfold amount_of. apply must_np; exact Hd.
  - destruct (0 <? zget (denom_id d) locked) eqn:Hpos; [|auto]. np; [apply new_coin_np; [exact Hd | lia] | auto].
Qed.
Lemma h_move_by_denoms_np e from to ds : env_inv e -> h_move_by_denoms e from to ds <> Panic.
Proof.
  intros Hinv. unfold h_move_by_denoms. np.
  - apply validate_move_by_denoms_np.
  - apply collect_denoms_np. eapply validate_move_by_denoms_ok; eauto.
  - apply k_split_coins_np; exact Hinv.
Qed.

Lemma denom_validate_np d : denom_validate d <> Panic. Proof. unfold denom_validate; np. Qed.

(* ---------------------------------------------------------------- cfeminter --------------- *)
Lemma cfg_validate_np m : cfg_validate m <> Panic.
Proof. unfold cfg_validate. destruct (r_cfg m); np. Qed.

Lemma minters_loop_np_tail multi start pe id ms :
  pe <> None -> minters_loop multi start false pe id ms <> Panic.
Proof.
  revert pe id; induction ms as [|m t IH]; intros pe id Hpe; cbn [minters_loop]; [discriminate|]. np.
  - destruct multi; [|discriminate]. destruct t as [|m' t']; cbn [negb]; [discriminate|].
    cbn [negb andb] in Hb1. destruct (r_end m) as [en|]; [|discriminate].
    destruct pe as [p|]; [|congruence]. cbn [opt_deref]. np.
  - apply cfg_validate_np.
  - destruct t as [|m' t']; [discriminate|]. apply IH. cbn [negb andb] in Hb1. destruct (r_end m); [discriminate | discriminate].
Qed.

Lemma minters_loop_np start ms : minters_loop (1 <? Z.of_nat (length ms)) start true None 0 ms <> Panic.
Proof.
  destruct ms as [|m t]; cbn [minters_loop]; [discriminate|]. np.
  - destruct t as [|m' t'].
    + cbn [length]. replace (1 <? Z.of_nat 1) with false by reflexivity. discriminate.
    + replace (1 <? Z.of_nat (length (m :: m' :: t'))) with true by (cbn [length]; lia).
      cbn [negb andb] in Hb1. destruct (r_end m) as [en|]; [|discriminate]. cbn [opt_deref]. np.
  - apply cfg_validate_np.
  - destruct t as [|m' t']; [discriminate|]. apply minters_loop_np_tail.
    cbn [negb andb] in Hb1. destruct (r_end m); [discriminate | discriminate].
Qed.

Lemma insert_minter_length m l : length (insert_minter m l) = S (length l).
Proof. induction l as [|x t IH]; cbn [insert_minter length]; [reflexivity|]. destruct (r_seq m <? r_seq x); cbn [length]; lia. Qed.
Lemma sort_minters_length l : length (sort_minters l) = length l.
Proof. induction l as [|x t IH]; cbn [sort_minters fold_right length]; [reflexivity|]. fold (sort_minters t). rewrite insert_minter_length, IH. reflexivity. Qed.

Lemma validate_minters_np start ms : validate_minters start ms <> Panic.
Proof.
  unfold validate_minters. np. destruct (all_some ms) as [l|]; [|discriminate].
  rewrite <- (sort_minters_length l). apply minters_loop_np.
Qed.
Lemma validate_minter_params_np d start ms : validate_minter_params d start ms <> Panic.
Proof. unfold validate_minter_params. np; [apply denom_validate_np | apply validate_minters_np]. Qed.
Lemma k_minter_update_np e auth d start ms : k_minter_update e auth d start ms <> Panic.
Proof. unfold k_minter_update. np. apply validate_minter_params_np. Qed.

(* ---------------------------------------------------------------- cfedistributor ---------- *)
Lemma share_validate_raw_np pn s : share_validate_raw pn s <> Panic.
Proof. unfold share_validate_raw; np. Qed.
Lemma share_validate_raw_ok pn s u : share_validate_raw pn s = Ok u -> exists x, rs_share s = DV x.
Proof. unfold share_validate_raw; intros H. binds H. np. eauto. Qed.
Lemma shares_validate_raw_np pn l : shares_validate_raw pn l <> Panic.
Proof. induction l as [|[s|] t IH]; cbn [shares_validate_raw]; np; [apply share_validate_raw_np | exact IH]. Qed.
Lemma shares_sum_raw_np pn l u : shares_validate_raw pn l = Ok u -> forall acc, shares_sum_raw acc l <> Panic.
Proof.
  induction l as [|[s|] t IH]; cbn [shares_validate_raw shares_sum_raw]; intros H acc; [discriminate | | discriminate].
  apply bind_ok in H as (u0 & Hs & H). apply share_validate_raw_ok in Hs as (y & Hy).
  cbn [opt_deref bind]. rewrite Hy. cbn [d_val bind]. apply IH; exact H.
Qed.
Lemma destinations_validate_raw_np r : destinations_validate_raw r <> Panic.
Proof.
  unfold destinations_validate_raw. np; [apply shares_validate_raw_np |].
  match goal with H : shares_validate_raw _ _ = Ok _ |- _ => eapply shares_sum_raw_np; exact H end.
Qed.
Lemma sources_validate_raw_np l : sources_validate_raw l <> Panic.
Proof. induction l as [|[a|] t IH]; cbn [sources_validate_raw]; np. exact IH. Qed.
Lemma sub_validate_raw_np r : sub_validate_raw r <> Panic.
Proof. unfold sub_validate_raw. np; [apply destinations_validate_raw_np | apply sources_validate_raw_np]. Qed.
Lemma subs_validate_raw_np l : subs_validate_raw l <> Panic.
Proof. induction l as [|r t IH]; cbn [subs_validate_raw]; np; [apply sub_validate_raw_np | exact IH]. Qed.

(* a raw sub-distributor that passes SubDistributor.Validate has no nil part, and its lowering
   satisfies the well-formed decision of Params.v *)
Lemma sources_validate_raw_lowers l u :
  sources_validate_raw l = Ok u -> exists srcs, all_some l = Some srcs /\ forallb acct_valid srcs = true /\ length srcs = length l.
Proof.
  induction l as [|[a|] t IH]; cbn [sources_validate_raw all_some]; intros H; [eexists; repeat split; reflexivity | | discriminate].
  apply bind_ok in H as (u0 & Ha & H). apply guard_ok in Ha. destruct (IH H) as (srcs & -> & Hs & Hl).
  eexists; split; [reflexivity|]. cbn [forallb length]. rewrite Ha, Hs, Hl. split; reflexivity.
Qed.
Lemma share_validate_raw_lowers pn s u :
  share_validate_raw pn s = Ok u -> exists sh, lower_share s = Some sh /\ share_valid pn sh = true.
Proof.
  unfold share_validate_raw; intros H. binds H. np.
  match goal with Hs : rs_share s = DV ?y |- _ =>
    unfold lower_share; rewrite Hs; eexists; split; [reflexivity|]; unfold share_valid; cbn [sh_name sh_share sh_dest];
    repeat match goal with Hn : negb _ = true |- _ => apply negb_true_false in Hn end;
    match goal with Ho : _ || _ = false |- _ => apply orb_false_iff in Ho as [Ho1 Ho2] end;
    replace (0 <=? y) with true by lia; replace (y <? P) with true by lia
  end.
  repeat match goal with Hn : ?b = false |- context [negb ?b] => rewrite Hn end. cbn [negb andb]. assumption.
Qed.
Lemma shares_validate_raw_lowers pn l u :
  shares_validate_raw pn l = Ok u ->
  exists shs, opt_bind (all_some l) (fun k => all_some (map lower_share k)) = Some shs
              /\ forallb (share_valid pn) shs = true
              /\ forall acc, shares_sum_raw acc l = Ok (acc + zsum (map sh_share shs)).
Proof.
  induction l as [|[s|] t IH]; cbn [shares_validate_raw]; intros H.
  - exists []; cbn. split; [reflexivity|]. split; [reflexivity|]. intros acc; f_equal; lia.
  - apply bind_ok in H as (u0 & Hs & H). destruct (IH H) as (shs & Hl & Hv & Hsum).
    apply share_validate_raw_lowers in Hs as (sh & Hsh & Hshv).
    unfold opt_bind in *. cbn [all_some]. destruct (all_some t) as [k|]; [|discriminate].
    cbn [map all_some]. rewrite Hsh, Hl. eexists; split; [reflexivity|]. split; [cbn [forallb]; rewrite Hshv, Hv; reflexivity|].
    intros acc. cbn [shares_sum_raw opt_deref bind]. unfold lower_share in Hsh. destruct (rs_share s) as [|y] eqn:Hy; [discriminate|].
    injection Hsh as <-. cbn [d_val bind map zsum sh_share]. rewrite Hsum. f_equal; lia.
  - discriminate.
Qed.

Lemma sub_validate_raw_lowers r u :
  sub_validate_raw r = Ok u -> exists s, lower_sub r = Some s /\ sub_valid s = true.
Proof.
  unfold sub_validate_raw, destinations_validate_raw; intros H. binds H.
  repeat match goal with Hd : bind _ _ = Ok _ |- _ => binds Hd end. np.
  match goal with Hs : sources_validate_raw _ = Ok _ |- _ => apply sources_validate_raw_lowers in Hs as (srcs & Hsrc & Hsv & Hlen) end.
  match goal with Hs : shares_validate_raw _ _ = Ok _ |- _ => apply shares_validate_raw_lowers in Hs as (shs & Hshs & Hshv & Hsum) end.
  match goal with Hb : rr_burn r = DV ?b |- _ =>
    unfold lower_sub; rewrite Hb, Hsrc, Hshs; eexists; split; [reflexivity|];
    unfold sub_valid; cbn [ps_sd ps_pname sd_name sd_burn sd_shares sd_primary sd_sources];
    match goal with Hq : shares_sum_raw _ _ = Ok _ |- _ => rewrite Hsum in Hq; injection Hq as <- end;
    repeat match goal with Hn : negb _ = true |- _ => apply negb_true_false in Hn end;
    repeat match goal with Ho : _ || _ = false |- _ => apply orb_false_iff in Ho as [? ?] end;
    replace (0 <=? b) with true by lia; replace (b <? P) with true by lia;
    replace (0 <=? b + zsum (map sh_share shs)) with true by lia; replace (b + zsum (map sh_share shs) <? P) with true by lia
  end.
  rewrite Hshv, Hsv.
  repeat match goal with Hn : ?c = false |- context [negb ?c] => rewrite Hn end.
  repeat match goal with Hn : ?c = true |- context [?c] => rewrite Hn end. cbn [negb andb].
  destruct srcs as [|a0 t0]; [|reflexivity]. destruct (rr_sources r); [discriminate | discriminate].
Qed.

Lemma subs_validate_raw_lowers l u :
  subs_validate_raw l = Ok u -> exists low, all_some (map lower_sub l) = Some low /\ forallb sub_valid low = true.
Proof.
  induction l as [|r t IH]; cbn [subs_validate_raw map all_some]; intros H; [exists []; split; reflexivity|].
  apply bind_ok in H as (u0 & Hr & H). apply sub_validate_raw_lowers in Hr as (s & -> & Hs).
  destruct (IH H) as (low & -> & Hlow). eexists; split; [reflexivity|]. cbn [forallb]. rewrite Hs, Hlow. reflexivity.
Qed.

Lemma dparams_validate_raw_np l : dparams_validate_raw l <> Panic.
Proof.
  unfold dparams_validate_raw. np; [apply subs_validate_raw_np|].
  match goal with H : subs_validate_raw _ = Ok _ |- _ => apply subs_validate_raw_lowers in H as (low & -> & _) end. discriminate.
Qed.

(* acceptance of raw distributor parameters implies acceptance of the lowered value by Params.v *)
Lemma dparams_validate_raw_sound l u :
  dparams_validate_raw l = Ok u -> exists low, all_some (map lower_sub l) = Some low /\ dparams_valid low = true.
Proof.
  unfold dparams_validate_raw. intros H. apply bind_ok in H as (u0 & Hs & H).
  apply subs_validate_raw_lowers in Hs as (low & Hlow & Hv). rewrite Hlow in H. cbn [opt_deref bind] in H.
  apply guard_ok in H. exists low; split; [exact Hlow|]. unfold dparams_valid. rewrite Hv. exact H.
Qed.

Lemma mixed_validate_np l : mixed_validate l <> Panic.
Proof. induction l as [|[s|r] t IH]; cbn [mixed_validate]; np; try exact IH. apply sub_validate_raw_np. Qed.
Lemma mixed_validate_lowers l u : mixed_validate l = Ok u -> exists low, mixed_lower l = Some low /\ forallb sub_valid low = true.
Proof.
  unfold mixed_lower. induction l as [|[s|r] t IH]; cbn [mixed_validate map all_some]; intros H; [exists []; split; reflexivity | |].
  - apply bind_ok in H as (u0 & Hs & H). apply guard_ok in Hs. destruct (IH H) as (low & -> & Hlow).
    eexists; split; [reflexivity|]. cbn [forallb]. rewrite Hs, Hlow. reflexivity.
  - apply bind_ok in H as (u0 & Hr & H). apply sub_validate_raw_lowers in Hr as (s & -> & Hs).
    destruct (IH H) as (low & -> & Hlow). eexists; split; [reflexivity|]. cbn [forallb]. rewrite Hs, Hlow. reflexivity.
Qed.

Lemma h_distr_update_sub_np e auth o : h_distr_update_sub e auth o <> Panic.
Proof.
  unfold h_distr_update_sub. np. destruct o as [r|]; [|discriminate].
  destruct (replace_sub_raw (e_subs e) r) as [cand|]; [|discriminate]. np; [apply mixed_validate_np|].
  match goal with H : mixed_validate _ = Ok _ |- _ => apply mixed_validate_lowers in H as (low & -> & _) end. discriminate.
Qed.
Lemma h_distr_update_share_np e auth dname share : h_distr_update_share e auth dname share <> Panic.
Proof. unfold h_distr_update_share. np. match goal with |- match ?x with _ => _ end <> _ => destruct x end; np. Qed.
Lemma h_distr_update_burn_np e auth sdname burn : h_distr_update_burn e auth sdname burn <> Panic.
Proof. unfold h_distr_update_burn. np. match goal with |- match ?x with _ => _ end <> _ => destruct x end; np. Qed.

(* ---------------------------------------------------------------- cfesignature ------------ *)
Lemma h_sig_publish_np e key : h_sig_publish e key <> Panic.
Proof. unfold h_sig_publish. np. Qed.
Lemma h_sig_store_np key j : h_sig_store key j <> Panic.
Proof. unfold h_sig_store. np. Qed.

(* ================================================================ the theorems ============ *)
Theorem validate_basic_never_panics e m : validate_basic e m <> Panic.
Proof.
  destruct m; cbn [validate_basic]; np.
  - apply validate_create_pool_np.
  - apply validate_send_to_vesting_np.
  - apply validate_cva_np.
  - apply validate_split_np.
  - apply validate_addresses_np.
  - apply validate_move_by_denoms_np.
  - apply denom_validate_np.
  - apply validate_minter_params_np.
  - apply validate_minters_np.
  - unfold vb_distr_update_params. np. apply dparams_validate_raw_np.
  - unfold vb_distr_update_sub. np. destruct o; [apply sub_validate_raw_np | discriminate].
  - unfold vb_distr_update_share. np.
  - unfold vb_distr_update_burn. np.
Qed.

Theorem handlers_never_panic e m : env_inv e -> is_create_account m = false -> handle e m <> Panic.
Proof.
  intros Hinv Hm. destruct m; cbn [handle]; try discriminate Hm.
  - apply h_create_pool_np; exact Hinv.
  - unfold h_withdraw. np. apply k_withdraw_all_np; exact Hinv.
  - apply h_send_to_vesting_np; exact Hinv.
  - apply h_create_vesting_account_np; exact Hinv.
  - apply h_split_np; exact Hinv.
  - apply h_move_np; exact Hinv.
  - apply h_move_by_denoms_np; exact Hinv.
  - np. apply denom_validate_np.
  - apply k_minter_update_np.
  - apply k_minter_update_np.
  - unfold h_distr_update_params. np. apply dparams_validate_raw_np.
  - apply h_distr_update_sub_np.
  - apply h_distr_update_share_np.
  - apply h_distr_update_burn_np.
  - apply h_sig_publish_np.
  - apply h_sig_store_np.
Qed.

Corollary accepted_message_never_panics e m :
  env_inv e -> is_create_account m = false -> validate_basic e m = Ok tt -> handle e m <> Panic.
Proof. intros Hinv Hm _. apply handlers_never_panic; assumption. Qed.

(* K7: MsgCreateAccount passes ValidateBasic and panics for every parsable address and public key *)
Theorem create_account_panics_iff e creator acc pk_ok :
  handle e (MSigCreateAccount creator acc pk_ok) = Panic <-> (exists id, acc = AOk id) /\ pk_ok = true.
Proof.
  cbn [handle]. unfold h_sig_create_account. destruct acc as [s|id]; cbn; [split; [discriminate | intros [[? ?] _]; discriminate]|].
  destruct pk_ok; cbn; split; eauto; try discriminate. intros [_ ?]; discriminate.
Qed.
Theorem accepted_create_account_refuted e :
  exists m, validate_basic e m = Ok tt /\ handle e m = Panic.
Proof. exists (MSigCreateAccount (AOk 1) (AOk 2) true). split; reflexivity. Qed.

Theorem queries_never_panic e req_nil a : q_generic req_nil <> Panic /\ q_account_info e req_nil a <> Panic.
Proof.
  split.
  - unfold q_generic. np.
  - unfold q_account_info. np. destruct a; [discriminate|].
    destruct (e_kind e id =? 0); [discriminate|]. destruct (e_haskey e id); discriminate.
Qed.

(* ---------------------------------------------------------------- the repaired defects ---- *)
(* each repaired panic, on the guard order before the fix *)
Lemma account_info_before_fix_panics e id :
  e_kind e id <> 0 -> e_haskey e id = false -> q_account_info_before_fix e false (AOk id) = Panic.
Proof. intros Hk Hp. unfold q_account_info_before_fix. cbn. replace (e_kind e id =? 0) with false by lia. rewrite Hp. reflexivity. Qed.
Lemma contains_minter_before_fix_panics id : contains_minter_before_fix id [None] = Panic.
Proof. reflexivity. Qed.
Lemma publish_before_fix_panics e : h_sig_publish_before_fix e 0 = Panic.
Proof. reflexivity. Qed.

(* ================================================================ refinement ============== *)
(* On well-formed (nil-free) parameters the raw validation is exactly the decision of Params.v /
   Minter.v; a raw value that is accepted is nil-free.  So the front door composed with the
   well-formed models is the complete handler decision. *)
Lemma share_validate_raw_complete pn s sh :
  lower_share s = Some sh -> share_validate_raw pn s = if share_valid pn sh then Ok tt else Err.
Proof.
  unfold lower_share. destruct (rs_share s) as [|y] eqn:Hy; [discriminate|]. intros H; injection H as <-.
  unfold share_validate_raw, share_valid. cbn [sh_name sh_share sh_dest]. rewrite Hy. cbn [d_is_nil negb d_val].
  destruct (rs_name s =? 0); cbn [negb guard bind andb]; [reflexivity|].
  destruct (rs_name s =? pn); cbn [negb guard bind andb]; [reflexivity|].
  assert (Hr : negb ((P <=? y) || (y <? 0)) = (0 <=? y) && (y <? P)) by lia. rewrite Hr.
  destruct ((0 <=? y) && (y <? P)); cbn [guard bind andb]; [destruct (acct_valid (rs_dest s)); reflexivity | reflexivity].
Qed.

Lemma shares_validate_raw_complete pn l shs :
  opt_bind (all_some l) (fun k => all_some (map lower_share k)) = Some shs ->
  shares_validate_raw pn l = (if forallb (share_valid pn) shs then Ok tt else Err)
  /\ forall acc, shares_sum_raw acc l = Ok (acc + zsum (map sh_share shs)).
Proof.
  revert shs; induction l as [|[s|] t IH]; intros shs; unfold opt_bind; cbn [all_some]; intros H.
  - injection H as <-. split; [reflexivity|]. intros acc; cbn; f_equal; lia.
  - destruct (all_some t) as [k|] eqn:Hk; [|discriminate]. cbn [map all_some] in H.
    destruct (lower_share s) as [sh|] eqn:Hsh; [|discriminate]. destruct (all_some (map lower_share k)) as [shs'|] eqn:Hs'; [|discriminate].
    injection H as <-. destruct (IH shs') as [IH1 IH2]; [unfold opt_bind; exact Hs'|].
    split.
    + cbn [shares_validate_raw forallb]. rewrite (share_validate_raw_complete pn s sh Hsh).
      destruct (share_valid pn sh); cbn [bind andb]; [exact IH1 | reflexivity].
    + intros acc. cbn [shares_sum_raw opt_deref bind]. unfold lower_share in Hsh. destruct (rs_share s) as [|y]; [discriminate|].
      injection Hsh as <-. cbn [d_val bind map zsum sh_share]. rewrite IH2. f_equal; lia.
  - discriminate.
Qed.

Lemma sources_validate_raw_complete l srcs :
  all_some l = Some srcs -> sources_validate_raw l = if forallb acct_valid srcs then Ok tt else Err.
Proof.
  revert srcs; induction l as [|[a|] t IH]; intros srcs; cbn [all_some]; intros H; [injection H as <-; reflexivity | | discriminate].
  destruct (all_some t) as [k|]; [|discriminate]. injection H as <-. cbn [sources_validate_raw forallb].
  destruct (acct_valid a); cbn [guard bind andb]; [apply IH; reflexivity | reflexivity].
Qed.

Lemma sub_validate_raw_complete r s :
  lower_sub r = Some s -> sub_validate_raw r = if sub_valid s then Ok tt else Err.
Proof.
  unfold lower_sub. destruct (rr_burn r) as [|b] eqn:Hb; [discriminate|].
  destruct (all_some (rr_sources r)) as [srcs|] eqn:Hsrc; [|discriminate].
  destruct (opt_bind (all_some (rr_shares r)) (fun l => all_some (map lower_share l))) as [shs|] eqn:Hshs; [|discriminate].
  intros H; injection H as <-.
  destruct (shares_validate_raw_complete (rr_pname r) _ _ Hshs) as [Hv Hsum].
  unfold sub_validate_raw, destinations_validate_raw, sub_valid.
  cbn [ps_sd ps_pname sd_name sd_burn sd_shares sd_primary sd_sources]. rewrite Hb.
  cbn [d_is_nil negb d_val].
  destruct (rr_name r =? 0); cbn [negb guard bind andb]; [reflexivity|].
  assert (Hr : negb ((P <=? b) || (b <? 0)) = (0 <=? b) && (b <? P)) by lia. rewrite Hr.
  destruct ((0 <=? b) && (b <? P)); cbn [guard bind andb]; [|reflexivity].
  rewrite Hv. destruct (forallb (share_valid (rr_pname r)) shs); cbn [bind andb]; [|reflexivity].
  destruct (acct_valid (rr_primary r)); cbn [guard bind andb]; [|reflexivity].
  rewrite Hsum. cbn [bind].
  set (tot := b + zsum (map sh_share shs)).
  assert (Ht : negb ((P <=? tot) || (tot <? 0)) = (0 <=? tot) && (tot <? P)) by lia. rewrite Ht.
  destruct ((0 <=? tot) && (tot <? P)); cbn [guard bind andb]; [|reflexivity].
  rewrite (sources_validate_raw_complete _ _ Hsrc).
  assert (Hnil : (match rr_sources r with [] => true | _ => false end) = (match srcs with [] => true | _ => false end)).
  { destruct (rr_sources r) as [|[a|] t]; cbn [all_some] in Hsrc; [injection Hsrc as <-; reflexivity | | discriminate].
    destruct (all_some t); [injection Hsrc as <-; reflexivity | discriminate]. }
  rewrite Hnil. destruct srcs; cbn [negb guard bind andb]; reflexivity.
Qed.

Lemma subs_validate_raw_complete l low :
  all_some (map lower_sub l) = Some low -> subs_validate_raw l = if forallb sub_valid low then Ok tt else Err.
Proof.
  revert low; induction l as [|r t IH]; intros low; cbn [map all_some]; intros H; [injection H as <-; reflexivity|].
  destruct (lower_sub r) as [s|] eqn:Hs; [|discriminate]. destruct (all_some (map lower_sub t)) as [k|]; [|discriminate].
  injection H as <-. cbn [subs_validate_raw forallb]. rewrite (sub_validate_raw_complete r s Hs).
  destruct (sub_valid s); cbn [bind andb]; [apply IH; reflexivity | reflexivity].
Qed.

Theorem dparams_validate_raw_refines l low :
  all_some (map lower_sub l) = Some low -> dparams_validate_raw l = if dparams_valid low then Ok tt else Err.
Proof.
  intros H. unfold dparams_validate_raw, dparams_valid. rewrite (subs_validate_raw_complete l low H), H.
  destruct (forallb sub_valid low); cbn [bind opt_deref andb]; [|reflexivity]. fold (order_ok low). destruct (order_ok low); reflexivity.
Qed.

(* ---- minter ---- *)
Lemma cfg_validate_complete m lm :
  lower_minter m = Some lm -> cfg_validate m = (if cfg_valid lm then Ok tt else Err) /\ m_seq lm = r_seq m /\ m_end lm = r_end m.
Proof.
  unfold lower_minter. destruct (lower_cfg (r_cfg m)) as [c|] eqn:Hc; [|discriminate]. intros H; injection H as <-.
  split; [|split; reflexivity]. unfold cfg_validate, cfg_valid. cbn [m_cfg m_end].
  destruct (r_cfg m) as [| | |a|a mult step]; cbn [lower_cfg] in Hc; try discriminate.
  - injection Hc as <-. reflexivity.
  - destruct a as [|z]; [discriminate|]. injection Hc as <-. cbn [i_is_nil negb i_val].
    destruct (r_end m); cbn [is_some guard bind]; [destruct (0 <=? z); reflexivity | rewrite andb_false_r; reflexivity].
  - destruct a as [|z]; [discriminate|]. destruct mult as [|x]; [discriminate|]. injection Hc as <-.
    cbn [i_is_nil d_is_nil negb i_val d_val guard bind].
    destruct (0 <? z) eqn:Hz; [replace (0 <=? z) with true by lia | destruct (0 <=? z)]; cbn [guard bind andb]; try reflexivity.
    destruct (0 <=? x); cbn [guard bind andb]; [|reflexivity]. destruct (0 <? step); reflexivity.
Qed.

Lemma mvf_single id pe m : minters_valid_from id pe [m] =
  (if id =? 0 then 0 <? m_seq m else m_seq m =? id + 1) && match m_end m with None => true | Some _ => false end && cfg_valid m.
Proof. reflexivity. Qed.
Lemma mvf_cons2 id pe m m' t : minters_valid_from id pe (m :: m' :: t) =
  (if id =? 0 then 0 <? m_seq m else m_seq m =? id + 1)
  && match m_end m with Some e => (pe <? e) && minters_valid_from (m_seq m) e (m' :: t) | None => false end && cfg_valid m.
Proof. reflexivity. Qed.

Definition lower_minters (l : list minter_raw) : option (list minter) := all_some (map lower_minter l).

Lemma minters_loop_tail_complete start ms low pe id :
  ms <> [] -> lower_minters ms = Some low ->
  minters_loop true start false (Some pe) id ms = if minters_valid_from id pe low then Ok tt else Err.
Proof.
  unfold lower_minters. revert low pe id; induction ms as [|m t IH]; intros low pe id Hne Hl; [congruence|].
  cbn [map all_some] in Hl. destruct (lower_minter m) as [lm|] eqn:Hm; [|discriminate].
  destruct (all_some (map lower_minter t)) as [lt|] eqn:Ht; [|discriminate]. injection Hl as <-.
  destruct (cfg_validate_complete m lm Hm) as (Hcfg & Hseq & Hend).
  cbn [minters_loop]. rewrite Hcfg.
  destruct t as [|m' t'].
  - cbn [map all_some] in Ht. injection Ht as <-. rewrite mvf_single. cbn [negb andb]. rewrite Hseq, Hend.
    destruct (if id =? 0 then 0 <? r_seq m else r_seq m =? id + 1); cbn [guard bind andb]; [|reflexivity].
    destruct (r_end m); cbn [is_some negb guard bind andb]; [reflexivity|]. destruct (cfg_valid lm); reflexivity.
  - assert (Hlt : exists lm' lt', lt = lm' :: lt').
    { cbn [map all_some] in Ht. destruct (lower_minter m'); [|discriminate]. destruct (all_some (map lower_minter t')); [|discriminate].
      injection Ht as <-. eauto. }
    destruct Hlt as (lm' & lt' & ->).
    rewrite mvf_cons2. cbn [negb andb]. rewrite Hseq, Hend.
    destruct (if id =? 0 then 0 <? r_seq m else r_seq m =? id + 1); cbn [guard bind andb]; [|reflexivity].
    destruct (r_end m) as [en|]; cbn [is_some negb guard bind opt_deref andb]; [|reflexivity].
    destruct (pe <? en); cbn [guard bind andb]; [|reflexivity].
    rewrite (IH (lm' :: lt') en (r_seq m)); [| discriminate | reflexivity].
    destruct (cfg_valid lm); cbn [bind]; [rewrite andb_true_r; reflexivity|]. rewrite andb_false_r. reflexivity.
Qed.

Lemma minters_loop_complete start ms low :
  ms <> [] -> lower_minters ms = Some low ->
  minters_loop (1 <? Z.of_nat (length ms)) start true None 0 ms = if minters_valid_from 0 start low then Ok tt else Err.
Proof.
  unfold lower_minters. destruct ms as [|m t]; intros Hne Hl; [congruence|].
  cbn [map all_some] in Hl. destruct (lower_minter m) as [lm|] eqn:Hm; [|discriminate].
  destruct (all_some (map lower_minter t)) as [lt|] eqn:Ht; [|discriminate]. injection Hl as <-.
  destruct (cfg_validate_complete m lm Hm) as (Hcfg & Hseq & Hend).
  cbn [minters_loop]. rewrite Hcfg.
  destruct t as [|m' t'].
  - cbn [map all_some] in Ht. injection Ht as <-. rewrite mvf_single. cbn [negb andb length]. rewrite Hseq, Hend.
    replace (1 <? Z.of_nat 1) with false by reflexivity. replace (0 =? 0) with true by reflexivity.
    destruct (0 <? r_seq m); cbn [guard bind andb]; [|reflexivity].
    destruct (r_end m); cbn [is_some negb guard bind andb]; [reflexivity|]. destruct (cfg_valid lm); reflexivity.
  - assert (Hlt : exists lm' lt', lt = lm' :: lt').
    { cbn [map all_some] in Ht. destruct (lower_minter m'); [|discriminate]. destruct (all_some (map lower_minter t')); [|discriminate].
      injection Ht as <-. eauto. }
    destruct Hlt as (lm' & lt' & ->).
    replace (1 <? Z.of_nat (length (m :: m' :: t'))) with true by (cbn [length]; lia).
    rewrite mvf_cons2. cbn [negb andb]. rewrite Hseq, Hend. replace (0 =? 0) with true by reflexivity.
    destruct (0 <? r_seq m); cbn [guard bind andb]; [|reflexivity].
    destruct (r_end m) as [en|]; cbn [is_some negb guard bind opt_deref andb]; [|reflexivity].
    destruct (start <? en); cbn [guard bind andb]; [|reflexivity].
    rewrite (minters_loop_tail_complete start (m' :: t') (lm' :: lt') en (r_seq m)); [| discriminate | exact Ht].
    destruct (cfg_valid lm); cbn [bind]; [rewrite andb_true_r; reflexivity|]. rewrite andb_false_r. reflexivity.
Qed.

Theorem validate_minters_refines start ms l low :
  all_some ms = Some l -> l <> [] -> lower_minters (sort_minters l) = Some low ->
  validate_minters start ms = if minters_valid_from 0 start low then Ok tt else Err.
Proof.
  intros Hall Hne Hlow. unfold validate_minters. rewrite Hall.
  assert (Hms : ms <> []) by (intros ->; cbn in Hall; injection Hall as <-; congruence).
  destruct ms as [|o t]; [congruence|]. cbn [negb guard bind].
  rewrite <- (sort_minters_length l). apply minters_loop_complete; [|exact Hlow].
  intros Hs. apply (f_equal (@length _)) in Hs. rewrite sort_minters_length in Hs. destruct l; [congruence | discriminate].
Qed.
