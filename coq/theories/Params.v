(* Params.v — C13: parameter validation of the distributor (SubDistributor.Validate,
   Destinations.Validate, ValidateSubDistributors) and the governance update handlers of the three
   modules.  Transcribed from x/cfedistributor/types/sub_distributor.go, keeper/msg_server_update_params.go,
   x/cfeminter/keeper/msg_server_update_params.go, x/cfevesting/keeper/msg_server_update_denom_param.go. *)
From C4E Require Export Base Minter Distributor.
From Coq Require Import ZifyBool.
Open Scope Z_scope.

(* a sub-distributor together with the interned name of its primary share (name ++ "_primary") *)
Record psub := { ps_sd : subdist; ps_pname : Z }.

(* Account.Validate: the harness marks syntactically invalid base addresses / unknown module names with
   da_addr = -2 and unknown account types with da_type = 4; an internal account needs a non-empty id *)
Definition acct_valid (a : dacct) : bool :=
  if da_type a =? T_MAIN then true
  else if da_type a =? T_INTERNAL then negb (da_id a =? 0)
  else if (da_type a =? T_MODULE) || (da_type a =? T_BASE) then negb (da_addr a =? -2)
  else false.

Definition share_valid (pname : Z) (sh : dshare) : bool :=
  negb (sh_name sh =? 0) && negb (sh_name sh =? pname) && (0 <=? sh_share sh) && (sh_share sh <? P) && acct_valid (sh_dest sh).

(* SubDistributor.Validate *)
Definition sub_valid (s : psub) : bool :=
  let sd := ps_sd s in
  negb (sd_name sd =? 0)
  && (0 <=? sd_burn sd) && (sd_burn sd <? P)
  && forallb (share_valid (ps_pname s)) (sd_shares sd)
  && acct_valid (sd_primary sd)
  && (let tot := sd_burn sd + zsum (map sh_share (sd_shares sd)) in (0 <=? tot) && (tot <? P))
  && negb (match sd_sources sd with [] => true | _ => false end)
  && forallb acct_valid (sd_sources sd).

(* getId: all MAIN accounts are one; otherwise "Type-Id" (interned as da_key) *)
Definition acct_uid (a : dacct) : Z := if da_type a =? T_MAIN then -1 else da_key a.
Definition positional (a : dacct) : bool := (da_type a =? T_INTERNAL) || (da_type a =? T_MAIN).

(* state of ValidateSubDistributors: last occurrence kind per uid (true = source), index of the last
   sub-distributor that mentioned the uid, names seen *)
Record vstate := { v_last : list (Z * bool); v_idx : list (Z * Z); v_sdnames : list Z; v_shnames : list Z }.

Definition set_occurrence (v : vstate) (a : dacct) (pos : Z) (is_source : bool) : option vstate :=
  let id := acct_uid a in
  if zget id (v_idx v) =? pos then None                          (* same account twice within one sub-distributor *)
  else Some {| v_last := if positional a then aset id is_source (v_last v) else v_last v;
               v_idx := aset id pos (v_idx v); v_sdnames := v_sdnames v; v_shnames := v_shnames v |}.

Fixpoint occ_all (v : vstate) (l : list dacct) (pos : Z) (is_source : bool) : option vstate :=
  match l with [] => Some v | a :: t => match set_occurrence v a pos is_source with Some v' => occ_all v' t pos is_source | None => None end end.

Definition name_new (n : Z) (seen : list Z) : bool := negb (existsb (Z.eqb n) seen).

Fixpoint occ_shares (v : vstate) (l : list dshare) (pos : Z) : option vstate :=
  match l with
  | [] => Some v
  | sh :: t =>
      if name_new (sh_name sh) (v_shnames v) then
        match set_occurrence {| v_last := v_last v; v_idx := v_idx v; v_sdnames := v_sdnames v; v_shnames := sh_name sh :: v_shnames v |}
                             (sh_dest sh) pos false with
        | Some v' => occ_shares v' t pos | None => None end
      else None
  end.

Fixpoint validate_order (v : vstate) (l : list psub) (pos : Z) : option vstate :=
  match l with
  | [] => Some v
  | s :: t =>
      let sd := ps_sd s in
      if negb (name_new (sd_name sd) (v_sdnames v)) then None
      else
        let v0 := {| v_last := v_last v; v_idx := v_idx v; v_sdnames := sd_name sd :: v_sdnames v; v_shnames := v_shnames v |} in
        match occ_all v0 (sd_sources sd) pos true with
        | None => None
        | Some v1 =>
            match set_occurrence v1 (sd_primary sd) pos false with
            | None => None
            | Some v2 =>
                if negb (name_new (ps_pname s) (v_shnames v2)) then None
                else match occ_shares {| v_last := v_last v2; v_idx := v_idx v2; v_sdnames := v_sdnames v2; v_shnames := ps_pname s :: v_shnames v2 |}
                                      (sd_shares sd) pos with
                     | Some v3 => validate_order v3 t (pos + 1) | None => None end
            end
        end
  end.

(* validateLastOccurrence: MAIN must occur (as a positional account) and every positional account's last occurrence is a source *)
Definition last_occurrence_ok (v : vstate) : bool :=
  match aget (-1) (v_last v) with None => false | Some _ => forallb snd (v_last v) end.

(* Params.Validate of the distributor *)
Definition dparams_valid (l : list psub) : bool :=
  forallb sub_valid l &&
  match validate_order {| v_last := []; v_idx := []; v_sdnames := []; v_shnames := [] |} l 1 with
  | Some v => last_occurrence_ok v | None => false end.

(* ---------------------------------------------------------------- handlers ---------------- *)
(* every handler: authority check, candidate built from the stored value, SetParams validates the
   complete candidate and only then writes.  [None] = rejected, the store is not touched. *)
Definition set_params {T} (valid : T -> bool) (auth : bool) (candidate : option T) : option T :=
  if auth then match candidate with Some c => if valid c then Some c else None | None => None end else None.

Fixpoint replace_sub (l : list psub) (new : psub) : option (list psub) :=
  match l with
  | [] => None
  | s :: t => if sd_name (ps_sd s) =? sd_name (ps_sd new) then Some (new :: t)
              else match replace_sub t new with Some t' => Some (s :: t') | None => None end
  end.

Fixpoint replace_share_in (shs : list dshare) (name share : Z) : option (list dshare) :=
  match shs with
  | [] => None
  | sh :: t => if sh_name sh =? name then Some ({| sh_name := sh_name sh; sh_share := share; sh_dest := sh_dest sh |} :: t)
               else match replace_share_in t name share with Some t' => Some (sh :: t') | None => None end
  end.

Definition with_shares (s : psub) (shs : list dshare) : psub :=
  {| ps_sd := {| sd_name := sd_name (ps_sd s); sd_sources := sd_sources (ps_sd s); sd_primary := sd_primary (ps_sd s);
                 sd_burn := sd_burn (ps_sd s); sd_shares := shs |}; ps_pname := ps_pname s |}.
Definition with_burn (s : psub) (b : Z) : psub :=
  {| ps_sd := {| sd_name := sd_name (ps_sd s); sd_sources := sd_sources (ps_sd s); sd_primary := sd_primary (ps_sd s);
                 sd_burn := b; sd_shares := sd_shares (ps_sd s) |}; ps_pname := ps_pname s |}.

Fixpoint replace_share (l : list psub) (name share : Z) : option (list psub) :=
  match l with
  | [] => None
  | s :: t => match replace_share_in (sd_shares (ps_sd s)) name share with
              | Some shs => Some (with_shares s shs :: t)
              | None => match replace_share t name share with Some t' => Some (s :: t') | None => None end
              end
  end.

Fixpoint replace_burn (l : list psub) (sdname burn : Z) : option (list psub) :=
  match l with
  | [] => None
  | s :: t => if sd_name (ps_sd s) =? sdname then Some (with_burn s burn :: t)
              else match replace_burn t sdname burn with Some t' => Some (s :: t') | None => None end
  end.

Inductive pop :=
| PDistrAll (auth : bool) (new : list psub)
| PDistrSub (auth : bool) (new : psub)
| PDistrShare (auth : bool) (name share : Z)
| PDistrBurn (auth : bool) (sdname burn : Z)
| PMinter (auth : bool) (new : mparams) (keep_denom : bool)       (* MsgUpdateMintersParams keeps the stored denom flag *)
| PVestDenom (auth : bool) (denom_nonempty : bool).

Record pworld := { pw_distr : list psub; pw_minter : mparams; pw_mstate : mstate; pw_vdenom_ok : bool; pw_pools_exist : bool }.

Definition minter_candidate_ok (st : mstate) (p : mparams) : bool := mp_denom_ok p && contains_minter p (s_seq st) && params_valid p.

Definition pstep (w : pworld) (o : pop) : pworld * bool :=
  let upd_d (r : option (list psub)) := match r with
    | Some d => ({| pw_distr := d; pw_minter := pw_minter w; pw_mstate := pw_mstate w; pw_vdenom_ok := pw_vdenom_ok w; pw_pools_exist := pw_pools_exist w |}, true)
    | None => (w, false) end in
  match o with
  | PDistrAll auth new => upd_d (set_params dparams_valid auth (Some new))
  | PDistrSub auth new => upd_d (set_params dparams_valid auth (replace_sub (pw_distr w) new))
  | PDistrShare auth name share => upd_d (set_params dparams_valid auth (replace_share (pw_distr w) name share))
  | PDistrBurn auth sdname burn => upd_d (set_params dparams_valid auth (replace_burn (pw_distr w) sdname burn))
  | PMinter auth new keep =>
      let cand := if keep then {| mp_denom_ok := mp_denom_ok (pw_minter w); mp_start := mp_start new; mp_minters := mp_minters new |} else new in
      match set_params (minter_candidate_ok (pw_mstate w)) auth (Some cand) with
      | Some m => ({| pw_distr := pw_distr w; pw_minter := m; pw_mstate := pw_mstate w; pw_vdenom_ok := pw_vdenom_ok w; pw_pools_exist := pw_pools_exist w |}, true)
      | None => (w, false) end
  | PVestDenom auth nonempty =>
      if auth && negb (pw_pools_exist w) && nonempty
      then ({| pw_distr := pw_distr w; pw_minter := pw_minter w; pw_mstate := pw_mstate w; pw_vdenom_ok := true; pw_pools_exist := pw_pools_exist w |}, true)
      else (w, false)
  end.

Definition prun (w : pworld) (ops : list pop) : pworld := fold_left (fun w o => fst (pstep w o)) ops w.

Definition op_auth (o : pop) : bool :=
  match o with PDistrAll a _ | PDistrSub a _ | PDistrShare a _ _ | PDistrBurn a _ _ | PMinter a _ _ | PVestDenom a _ => a end.

(* ---------------------------------------------------------------- theorems ---------------- *)
Definition PValid (w : pworld) : Prop :=
  dparams_valid (pw_distr w) = true /\ params_valid (pw_minter w) = true /\
  contains_minter (pw_minter w) (s_seq (pw_mstate w)) = true /\ pw_vdenom_ok w = true.

Lemma set_params_spec {T} (valid : T -> bool) auth cand r :
  set_params valid auth cand = Some r -> auth = true /\ cand = Some r /\ valid r = true.
Proof.
  unfold set_params. destruct auth; [|discriminate]. destruct cand as [c|]; [|discriminate].
  destruct (valid c) eqn:E; [|discriminate]. intros H; inversion H; subst. auto.
Qed.

(* whatever update is applied — full or partial, valid or not, by governance or by anyone else — the
   stored parameters satisfy the validation rules afterwards, and the minter's current period exists *)
Theorem pstep_keeps_valid w o : PValid w -> PValid (fst (pstep w o)).
Proof.
  intros (H1 & H2 & H3 & H4). unfold pstep.
  assert (Hd : forall r, PValid (fst (match r with
      | Some d => ({| pw_distr := d; pw_minter := pw_minter w; pw_mstate := pw_mstate w; pw_vdenom_ok := pw_vdenom_ok w; pw_pools_exist := pw_pools_exist w |}, true)
      | None => (w, false) end)) \/ exists d, r = Some d /\ dparams_valid d = false).
  { intros [d|]; [|left; simpl; repeat split; assumption]. destruct (dparams_valid d) eqn:E; [left; simpl; repeat split; assumption|right; eauto]. }
  assert (Hsp : forall auth cand, PValid (fst (match set_params dparams_valid auth cand with
      | Some d => ({| pw_distr := d; pw_minter := pw_minter w; pw_mstate := pw_mstate w; pw_vdenom_ok := pw_vdenom_ok w; pw_pools_exist := pw_pools_exist w |}, true)
      | None => (w, false) end))).
  { intros auth cand. destruct (set_params dparams_valid auth cand) as [d|] eqn:E; simpl; [|repeat split; assumption].
    destruct (set_params_spec _ _ _ _ E) as (_ & _ & Hv). repeat split; assumption. }
  destruct o; try apply Hsp.
  - destruct (set_params (minter_candidate_ok (pw_mstate w)) auth _) as [m|] eqn:E; simpl; [|repeat split; assumption].
    destruct (set_params_spec _ _ _ _ E) as (_ & _ & Hv). unfold minter_candidate_ok in Hv. apply andb_true_iff in Hv. destruct Hv as [Hv Hv2].
    apply andb_true_iff in Hv. destruct Hv. repeat split; assumption.
  - destruct (auth && negb (pw_pools_exist w) && denom_nonempty); simpl; repeat split; assumption.
Qed.

Theorem prun_keeps_valid ops : forall w, PValid w -> PValid (prun w ops).
Proof. induction ops as [|o t IH]; intros w H; [exact H|]. simpl. apply IH. apply pstep_keeps_valid. exact H. Qed.

(* only the governance authority changes anything; a rejected update leaves everything as it was *)
Theorem non_authority_changes_nothing w o : op_auth o = false -> pstep w o = (w, false).
Proof.
  intros H. destruct o; simpl in H; subst; unfold pstep, set_params; reflexivity.
Qed.

Theorem rejected_update_changes_nothing w o : snd (pstep w o) = false -> fst (pstep w o) = w.
Proof.
  unfold pstep. destruct o; simpl;
    try (match goal with |- context [set_params ?V ?A ?C] => destruct (set_params V A C) end; simpl; intros H; [discriminate|reflexivity]).
  destruct (auth && negb (pw_pools_exist w) && denom_nonempty); simpl; intros H; [discriminate|reflexivity].
Qed.

(* the vesting denomination cannot change while pools exist *)
Theorem denom_fixed_while_pools_exist w auth ne : pw_pools_exist w = true -> pstep w (PVestDenom auth ne) = (w, false).
Proof. intros H. simpl. rewrite H. rewrite andb_false_r. reflexivity. Qed.

(* the minter's state and everything outside the addressed module is never touched by a parameter update *)
Theorem pstep_frame w o : pw_mstate (fst (pstep w o)) = pw_mstate w /\ pw_pools_exist (fst (pstep w o)) = pw_pools_exist w.
Proof.
  unfold pstep. destruct o; simpl;
    try (match goal with |- context [set_params ?V ?A ?C] => destruct (set_params V A C) end; simpl; split; reflexivity).
  destruct (auth && negb (pw_pools_exist w) && denom_nonempty); simpl; split; reflexivity.
Qed.

(* ---------------------------------------------------------------- case checking ----------- *)
Definition acct_code (a : dacct) : list Z := [da_type a; da_id a; da_key a; da_addr a].
Definition psub_code (s : psub) : list Z :=
  let sd := ps_sd s in
  sd_name sd :: ps_pname s :: sd_burn sd :: Z.of_nat (length (sd_sources sd)) :: flat_map acct_code (sd_sources sd)
  ++ acct_code (sd_primary sd) ++ Z.of_nat (length (sd_shares sd))
  :: flat_map (fun sh => sh_name sh :: sh_share sh :: acct_code (sh_dest sh)) (sd_shares sd).
Definition distr_code (l : list psub) : list Z := Z.of_nat (length l) :: flat_map psub_code l.

(* expected: [accepted; validity of the candidate as the implementation's own Validate judged it, or -1] ++ code of the stored distributor params *)
Fixpoint check_pops (w : pworld) (ops : list (pop * list Z)) (i : Z) : option (Z * list Z) :=
  match ops with
  | [] => None
  | (o, expected) :: t =>
      let '(w', ok) := pstep w o in
      let got := b2z ok :: b2z (mp_denom_ok (pw_minter w')) :: mp_start (pw_minter w') :: Z.of_nat (length (mp_minters (pw_minter w')))
                 :: b2z (pw_vdenom_ok w') :: distr_code (pw_distr w') in
      if zlist_eqb got expected then check_pops w' t (i + 1) else Some (i, got)
  end.

Record pcase := { pc_id : Z; pc_world : pworld; pc_valid0 : bool; pc_ops : list (pop * list Z) }.

Definition pmismatches (cs : list pcase) : list (Z * Z * list Z) :=
  flat_map (fun c =>
    if negb (Bool.eqb (dparams_valid (pw_distr (pc_world c))) (pc_valid0 c)) then [(pc_id c, -2, [b2z (dparams_valid (pw_distr (pc_world c)))])]
    else match check_pops (pc_world c) (pc_ops c) 0 with None => [] | Some (i, got) => [(pc_id c, i, got)] end) cs.
