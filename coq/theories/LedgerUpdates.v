(* LedgerUpdates.v — the credited-amounts refinement across parameter updates.  A history is a list of segments: a configuration
   that a governance update installs (Keeper.SetParams: the configuration is replaced, states and balances stay) followed by
   inflows and blocks under it.  As long as every installed configuration lives in one account universe — no alias of the main
   account (not K2), an id never shared by accounts of different types, neither inside one configuration (not K4) nor across
   updates (not K14) — what every account has been credited follows the credited-amounts machine run with the configuration
   in force, whatever payouts and burns fail. *)
From C4E Require Import Base Minter Distributor DistrCoins DistrProofs SupplyProofs Books Credited DistrNz Ledger LedgerProofs.
From Coq Require Import Lia ZifyBool.
Open Scope Z_scope.

Definition segment : Type := (list subdist * list lop)%type.

Fixpoint lrun_segs (w : dworld) (segs : list segment) : outcome dworld :=
  match segs with
  | [] => Ok w
  | (subs, ops) :: t => match lrun (dist_set_subs w subs) ops with Ok w' => lrun_segs w' t | Err => Err | Panic => Panic end
  end.

Fixpoint a_run_segs (d : Z) (st : aled) (segs : list segment) : aled :=
  match segs with [] => st | (subs, ops) :: t => a_run_segs d (a_run subs d st ops) t end.

Definition seg_ok (Acct : dacct -> Prop) (s : segment) : Prop := Forall (sd_full_ok Acct) (fst s) /\ Forall (lop_ok Acct) (snd s).

Lemma set_subs_keeps_lwinv Acct bk w subs : lwinv Acct bk w -> Forall (sd_full_ok Acct) subs -> lwinv Acct bk (dist_set_subs w subs).
Proof. intros [A B C D0 E] H. constructor; assumption. Qed.

Lemma set_subs_keeps_rep Acct bk d st w subs : LRep Acct bk d st w -> LRep Acct bk d st (dist_set_subs w subs).
Proof. intros H. exact H. Qed.

Theorem segments_refine_ledger Acct bk (U : acct_universe Acct bk) segs : forall w (st : Z -> aled),
  lwinv Acct bk w -> Forall (seg_ok Acct) segs -> (forall d, LRep Acct bk d (st d) w) ->
  exists w', lrun_segs w segs = Ok w' /\ lwinv Acct bk w' /\ forall d, LRep Acct bk d (a_run_segs d (st d) segs) w'.
Proof.
  induction segs as [|[subs ops] t IH]; intros w st Hw Hok Hrep; cbn [lrun_segs a_run_segs].
  - exists w. split; [reflexivity|]. split; [exact Hw|exact Hrep].
  - inversion Hok as [|? ? [Hs Ho] Hok']; subst. cbn [fst snd] in Hs, Ho.
    destruct (ledger_refinement Acct bk U ops (dist_set_subs w subs) st (set_subs_keeps_lwinv _ _ _ _ Hw Hs) Ho
                (fun d => set_subs_keeps_rep _ _ d _ _ subs (Hrep d))) as (w1 & E1 & Hw1 & _ & R1).
    rewrite E1. cbn [dist_set_subs dw_subs] in R1.
    destruct (IH w1 (fun d => a_run subs d (st d) ops) Hw1 Hok' R1) as (w' & E & A & B).
    exists w'. split; [exact E|]. split; [exact A|exact B].
Qed.

(* two histories with the same updates, inflows and blocks that differ only in which payouts and burns fail *)
Definition same_segment_but_faults (s s' : segment) : Prop := fst s = fst s' /\ Forall2 same_but_faults (snd s) (snd s').

Lemma a_run_segs_ignores_faults d segs segs' : Forall2 same_segment_but_faults segs segs' ->
  forall st, a_run_segs d st segs = a_run_segs d st segs'.
Proof.
  induction 1 as [|[subs ops] [subs' ops'] t t' [E F] _ IH]; intros st; [reflexivity|]. cbn [fst snd] in E, F. subst subs'.
  cbn [a_run_segs]. rewrite (a_run_ignores_faults subs d ops ops' F). apply IH.
Qed.

Theorem credited_amounts_independent_of_failures_across_updates Acct bk (U : acct_universe Acct bk) segs segs' w (st : Z -> aled) :
  lwinv Acct bk w -> Forall (seg_ok Acct) segs -> Forall (seg_ok Acct) segs' -> Forall2 same_segment_but_faults segs segs' ->
  (forall d, LRep Acct bk d (st d) w) ->
  exists w1 w2, lrun_segs w segs = Ok w1 /\ lrun_segs w segs' = Ok w2 /\
    forall d, (forall a, Acct a -> ledA a (dw_states w1) (wbank w1) d = ledA a (dw_states w2) (wbank w2) d) /\
              ledB bk (dw_states w1) (wbank w1) d = ledB bk (dw_states w2) (wbank w2) d /\
              unbooked (dw_states w1) (wbank w1) d = unbooked (dw_states w2) (wbank w2) d.
Proof.
  intros Hw Hok Hok' Hsame Hrep.
  destruct (segments_refine_ledger Acct bk U segs w st Hw Hok Hrep) as (w1 & E1 & _ & R1).
  destruct (segments_refine_ledger Acct bk U segs' w st Hw Hok' Hrep) as (w2 & E2 & _ & R2).
  exists w1, w2. split; [exact E1|]. split; [exact E2|]. intros d.
  destruct (R1 d) as (A1 & B1 & C1). destruct (R2 d) as (A2 & B2 & C2).
  rewrite (a_run_segs_ignores_faults d segs segs' Hsame) in A1, B1, C1.
  split; [intros a Ha; rewrite <- (A1 a Ha), <- (A2 a Ha); reflexivity|]. split; [rewrite <- B1, <- B2; reflexivity|lia].
Qed.

(* ---- non-vacuity: the configuration of LedgerExample.v, then an update that changes the fractions (50% to the internal account,
   20% burned); the first history loses both payouts of its first block, the second none *)
From C4E Require Import LedgerExample.

Definition xsubs2 : list subdist :=
  [ {| sd_name := 1; sd_sources := [xmain]; sd_primary := xa1; sd_burn := 2 * (P / 10);
       sd_shares := [ {| sh_name := 1; sh_share := 5 * (P / 10); sh_dest := xa2 |} ] |};
    {| sd_name := 2; sd_sources := [xa2]; sd_primary := xa1; sd_burn := 0; sd_shares := [] |} ].

Lemma xsubs_full_ok : Forall (sd_full_ok XAcct) xsubs.
Proof. exact (lw_cfg _ _ _ x_lwinv). Qed.

Lemma xsubs2_full_ok : Forall (sd_full_ok XAcct) xsubs2.
Proof.
  unfold xsubs2. constructor; [|constructor; [|constructor]].
  - split; [cbn; split; [left; reflexivity|constructor]|]. split.
    + split; [constructor; [split; [cbn; unfold P; lia|right; right; reflexivity]|constructor]|]. split; [cbn; unfold P; lia|right; left; reflexivity].
    + split; [constructor; [cbn; unfold P; lia|constructor]|]. split; [cbn; unfold P; lia|]. unfold shares_total. cbn. unfold P. lia.
  - split; [cbn; split; [right; right; reflexivity|constructor]|]. split.
    + split; [constructor|]. split; [cbn; lia|right; left; reflexivity].
    + split; [constructor|]. split; [cbn; lia|]. unfold shares_total. cbn. unfold P. lia.
Qed.

Definition xsegs1 : list segment := [(xsubs, [LBlock [true; true]]); (xsubs2, [LInflowMain [(0, 503)]; LBlock []; LBlock []])].
Definition xsegs2 : list segment := [(xsubs, [LBlock []]); (xsubs2, [LInflowMain [(0, 503)]; LBlock []; LBlock []])].

Example failing_payouts_are_made_up_across_an_update :
  exists w1 w2, lrun_segs xworld xsegs1 = Ok w1 /\ lrun_segs xworld xsegs2 = Ok w2 /\
    dw_bal w1 = dw_bal w2 /\ dw_burned w1 = dw_burned w2 /\ dw_subs w1 = xsubs2 /\
    forall d a, XAcct a -> ledA a (dw_states w1) (wbank w1) d = ledA a (dw_states w2) (wbank w2) d.
Proof.
  assert (Hin : dc_wf [(0, 503)] /\ dc_nz [(0, 503)] /\ forall d, 0 <= dc_amt d [(0, 503)]).
  { split; [split; [lia|exact I]|]. split; [constructor; [cbn; lia|constructor]|]. intros d. cbn [dc_amt]. destruct (d =? 0); lia. }
  assert (Hok1 : Forall (seg_ok XAcct) xsegs1).
  { constructor; [split; [exact xsubs_full_ok|constructor; [exact I|constructor]]|].
    constructor; [split; [exact xsubs2_full_ok|constructor; [exact Hin|constructor; [exact I|constructor; [exact I|constructor]]]]|constructor]. }
  assert (Hok2 : Forall (seg_ok XAcct) xsegs2).
  { constructor; [split; [exact xsubs_full_ok|constructor; [exact I|constructor]]|].
    constructor; [split; [exact xsubs2_full_ok|constructor; [exact Hin|constructor; [exact I|constructor; [exact I|constructor]]]]|constructor]. }
  destruct (credited_amounts_independent_of_failures_across_updates XAcct xbk x_universe xsegs1 xsegs2 xworld xst x_lwinv Hok1 Hok2)
    as (w1 & w2 & E1 & E2 & H).
  - constructor; [split; [reflexivity|constructor; [exact I|constructor]]|].
    constructor; [split; [reflexivity|constructor; [reflexivity|constructor; [exact I|constructor; [exact I|constructor]]]]|constructor].
  - exact x_rep.
  - exists w1, w2. split; [exact E1|]. split; [exact E2|].
    assert (W : match lrun_segs xworld xsegs1, lrun_segs xworld xsegs2 with
                | Ok v1, Ok v2 => dw_bal v1 = dw_bal v2 /\ dw_burned v1 = dw_burned v2 /\ dw_subs v1 = xsubs2
                | _, _ => False end) by (vm_compute; repeat split).
    rewrite E1, E2 in W. destruct W as (B & C & S). split; [exact B|]. split; [exact C|]. split; [exact S|].
    intros d a Ha. apply (proj1 (H d) a Ha).
Qed.
