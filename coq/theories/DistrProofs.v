(* DistrProofs.v — C03 / C04 / C14 / C18 (distributor): conservation inside StartDistributionProcess,
   the truncated-share law, end-of-block payouts, source preparation. Pointwise per denomination. *)
From C4E Require Import Base Minter Distributor DistrCoins.
From Coq Require Import ZifyBool.
Open Scope Z_scope.

Definition ev_sum (d : Z) (evs : list devent) : Z := zsum (map (fun e => dc_amt d (snd e)) evs).
Lemma ev_sum_app d a b : ev_sum d (a ++ b) = ev_sum d a + ev_sum d b.
Proof. unfold ev_sum. rewrite map_app, zsum_app. reflexivity. Qed.

Lemma ev_sum_cons d e l : ev_sum d (e :: l) = dc_amt d (snd e) + ev_sum d l.
Proof. reflexivity. Qed.

Definition dflt_state : dstate := {| st_acc := None; st_burn := false; st_key := 0; st_rem := [] |}.

Lemma find_account_state_lt sts id : forall start p, find_account_state sts id start = Ok (Some p) ->
  (start <= p < start + length sts)%nat.
Proof.
  induction sts as [|s t IH]; intros start p H; simpl in H; [discriminate|].
  destruct (st_acc s) as [a|]; [|discriminate]. destruct (da_id a =? id).
  - inversion H; subst. simpl. lia.
  - apply IH in H. simpl. lia.
Qed.

Lemma find_burn_state_lt sts : forall start p, find_burn_state sts start = Some p -> (start <= p < start + length sts)%nat.
Proof.
  induction sts as [|s t IH]; intros start p H; simpl in H; [discriminate|].
  destruct (st_burn s); [inversion H; subst; simpl; lia|]. apply IH in H. simpl. lia.
Qed.

Lemma add_rem_wf r s : dc_wf r -> dc_wf (st_rem s) -> dc_wf (st_rem (add_rem r s)).
Proof. intros. unfold add_rem, set_rem; simpl. apply dc_add_wf; assumption. Qed.

Lemma upd_add_rem d sts pos share : states_wf sts -> dc_wf share -> (pos < length sts)%nat ->
  states_wf (upd_state sts pos (add_rem share)) /\ remsum d (upd_state sts pos (add_rem share)) = remsum d sts + dc_amt d share.
Proof.
  intros Hw Hs Hp. split.
  - apply states_wf_upd; [assumption|]. intros s Hs'. apply add_rem_wf; assumption.
  - rewrite remsum_upd by assumption. unfold add_rem, set_rem; cbn [st_rem].
    rewrite dc_add_amt; [lia| |assumption].
    apply (proj1 (Forall_forall _ _) Hw). apply nth_In. assumption.
Qed.

Lemma states_wf_app a b : states_wf a -> states_wf b -> states_wf (a ++ b).
Proof. unfold states_wf. intros. apply Forall_app. split; assumption. Qed.

Lemma add_share_to_account_spec sts dest share sts' :
  add_share_to_account sts dest share = Ok sts' -> states_wf sts -> dc_wf share ->
  states_wf sts' /\ forall d, remsum d sts' = remsum d sts + dc_amt d share.
Proof.
  unfold add_share_to_account. destruct (find_account_state sts (da_id dest) 0) as [[p|]| |] eqn:E; try discriminate;
    intros H Hw Hs; inversion H; subst; clear H.
  - pose proof (find_account_state_lt _ _ _ _ E) as Hp.
    split; [apply (upd_add_rem 0 sts p share Hw Hs); lia|]. intros d. apply (upd_add_rem d sts p share Hw Hs). lia.
  - split.
    + apply states_wf_app; [assumption|]. repeat constructor. exact Hs.
    + intros d. rewrite remsum_app. unfold remsum at 2. simpl. lia.
Qed.

Lemma add_share_to_burn_spec sts bk share :
  states_wf sts -> dc_wf share ->
  states_wf (add_share_to_burn sts bk share) /\ forall d, remsum d (add_share_to_burn sts bk share) = remsum d sts + dc_amt d share.
Proof.
  intros Hw Hs. unfold add_share_to_burn. destruct (find_burn_state sts 0) as [p|] eqn:E.
  - pose proof (find_burn_state_lt _ _ _ E) as Hp.
    split; [apply (upd_add_rem 0 sts p share Hw Hs); lia|]. intros d. apply (upd_add_rem d sts p share Hw Hs). lia.
  - split.
    + apply states_wf_app; [assumption|]. repeat constructor. exact Hs.
    + intros d. rewrite remsum_app. unfold remsum at 2. simpl. lia.
Qed.

(* every Distribution event of a named share carries the truncated share of the inflow *)
Definition share_event_ok (inflow : dcoins) (shares : list dshare) (e : devent) : Prop :=
  exists sh, In sh shares /\ fst (fst e) = 1 /\ snd (fst e) = sh_name sh /\ da_type (sh_dest sh) <> T_MAIN /\
             snd e = calc_share (sh_share sh) inflow.

Lemma share_event_ok_cons inflow sh t e : share_event_ok inflow t e -> share_event_ok inflow (sh :: t) e.
Proof. intros (x & Hin & H). exists x. split; [right; assumption|exact H]. Qed.

Lemma distribute_shares_spec shares inflow : dc_wf inflow ->
  forall sts dflt evs sts' dflt' evs',
  distribute_shares shares inflow sts dflt evs = Ok (sts', dflt', evs') ->
  states_wf sts -> dc_wf dflt -> (forall d, 0 <= dc_amt d dflt) ->
  states_wf sts' /\ dc_wf dflt' /\
  exists new, evs' = evs ++ new /\ Forall (share_event_ok inflow shares) new /\
    forall d, remsum d sts' = remsum d sts + ev_sum d new /\
              dc_amt d dflt' = dc_amt d dflt - ev_sum d new /\ 0 <= dc_amt d dflt'.
Proof.
  intros Hin. induction shares as [|sh t IH]; intros sts dflt evs sts' dflt' evs' H Hw Hd Hnn.
  - simpl in H. inversion H; subst. split; [assumption|]. split; [assumption|]. exists []. rewrite app_nil_r.
    split; [reflexivity|]. split; [constructor|]. intros d. unfold ev_sum; simpl.
    split; [lia|]. split; [lia|apply Hnn].
  - cbn [distribute_shares] in H.
    assert (Hlift : forall sts0 dflt0 evs0, distribute_shares t inflow sts0 dflt0 evs0 = Ok (sts', dflt', evs') ->
              states_wf sts0 -> dc_wf dflt0 -> (forall d, 0 <= dc_amt d dflt0) ->
              states_wf sts' /\ dc_wf dflt' /\
              exists new, evs' = evs0 ++ new /\ Forall (share_event_ok inflow (sh :: t)) new /\
                forall d, remsum d sts' = remsum d sts0 + ev_sum d new /\
                          dc_amt d dflt' = dc_amt d dflt0 - ev_sum d new /\ 0 <= dc_amt d dflt').
    { intros sts0 dflt0 evs0 H0 Hw0 Hd0 Hn0. destruct (IH _ _ _ _ _ _ H0 Hw0 Hd0 Hn0) as (A & B & new & C & D & E).
      split; [assumption|]. split; [assumption|]. exists new. split; [assumption|]. split; [|assumption].
      eapply Forall_impl; [|exact D]. intros e. apply share_event_ok_cons. }
    destruct (da_type (sh_dest sh) =? T_MAIN) eqn:Em; [apply Hlift; assumption|].
    destruct (calc_share_spec (sh_share sh) inflow Hin) as [Hcw Hca].
    destruct (dc_sub dflt (calc_share (sh_share sh) inflow)) as [dflt1| |] eqn:Es; try discriminate.
    destruct (dc_sub_spec _ _ _ Hd Hcw Es) as [Hd1 Hamt1].
    destruct (dc_is_zero (calc_share (sh_share sh) inflow)) eqn:Ez.
    + destruct (Hlift _ _ _ H Hw Hd1 (fun d => proj2 (Hamt1 d))) as (A & B & new & C & D & E).
      split; [assumption|]. split; [assumption|]. exists new. split; [assumption|]. split; [assumption|].
      intros d. destruct (E d) as (E1 & E2 & E3). split; [assumption|]. split; [|assumption].
      rewrite E2. destruct (Hamt1 d) as [-> _].
      destruct (calc_share (sh_share sh) inflow); [simpl; lia|discriminate].
    + destruct (add_share_to_account sts (sh_dest sh) (calc_share (sh_share sh) inflow)) as [sts1| |] eqn:Ea; try discriminate.
      destruct (add_share_to_account_spec _ _ _ _ Ea Hw Hcw) as [Hw1 Hr1].
      destruct (Hlift _ _ _ H Hw1 Hd1 (fun d => proj2 (Hamt1 d))) as (A & B & new & C & D & E).
      split; [assumption|]. split; [assumption|].
      exists ((1, sh_name sh, calc_share (sh_share sh) inflow) :: new).
      split; [rewrite C, <- app_assoc; reflexivity|]. split.
      * constructor; [|assumption]. exists sh. split; [left; reflexivity|]. simpl.
        split; [reflexivity|]. split; [reflexivity|]. split; [lia|reflexivity].
      * intros d. destruct (E d) as (E1 & E2 & E3). unfold ev_sum in *. cbn [map zsum snd].
        rewrite E1, Hr1. destruct (Hamt1 d) as [Hx _]. split; [lia|]. split; [lia|assumption].
Qed.

(* C03 / C04 / C18 inside one StartDistributionProcess: the books grow by exactly what the events
   report; every named-share event carries the truncated share of the inflow, the burn event the
   truncated burn share, the primary event the remainder; events never exceed the inflow and add up
   to exactly the inflow unless the primary destination is MAIN, in which case the remainder stays
   unbooked in the main account (it is the next MAIN-source inflow) *)
Theorem start_distribution_spec sd inflow sts bk sts' evs :
  start_distribution sd inflow sts bk = Ok (sts', evs) ->
  states_wf sts -> dc_wf inflow -> (forall d, 0 <= dc_amt d inflow) ->
  states_wf sts' /\
  (forall d, remsum d sts' = remsum d sts + ev_sum d evs) /\
  (exists unbooked : Z -> Z, forall d, 0 <= unbooked d /\ ev_sum d evs + unbooked d = dc_amt d inflow /\
                                       (da_type (sd_primary sd) <> T_MAIN -> unbooked d = 0)) /\
  exists shares_evs prim burn_ev, evs = shares_evs ++ prim ++ burn_ev /\
    Forall (share_event_ok inflow (sd_shares sd)) shares_evs /\
    (burn_ev = [] \/ burn_ev = [(2, 0, calc_share (sd_burn sd) inflow)]) /\
    (prim = [] \/ exists c, prim = [(1, PRIMARY_NAME, c)] /\ da_type (sd_primary sd) <> T_MAIN /\
        forall d, dc_amt d c = dc_amt d inflow - ev_sum d shares_evs - dc_amt d (calc_share (sd_burn sd) inflow)).
Proof.
  unfold start_distribution. intros H Hw Hin Hnn.
  destruct (distribute_shares (sd_shares sd) inflow sts inflow []) as [[[sts1 dflt1] evs1]| |] eqn:Ed; try discriminate.
  destruct (distribute_shares_spec _ _ Hin _ _ _ _ _ _ Ed Hw Hin Hnn) as (Hw1 & Hd1 & new & Hev & Hok & Hamt).
  simpl in Hev. subst evs1.
  destruct (calc_share_spec (sd_burn sd) inflow Hin) as [Hbw Hba].
  destruct (dc_sub dflt1 (calc_share (sd_burn sd) inflow)) as [dflt2| |] eqn:Es; try discriminate.
  destruct (dc_sub_spec _ _ _ Hd1 Hbw Es) as [Hd2 Hamt2].
  set (cb := calc_share (sd_burn sd) inflow) in *.
  assert (Hburn : exists sts2 bev, (if dc_is_zero cb then (sts1, []) else (add_share_to_burn sts1 bk cb, [(2, 0, cb)])) = (sts2, bev) /\
            states_wf sts2 /\ (forall d, remsum d sts2 = remsum d sts1 + ev_sum d bev) /\ (forall d, ev_sum d bev = dc_amt d cb) /\
            (bev = [] \/ bev = [(2, 0, cb)])).
  { destruct (dc_is_zero cb) eqn:Ez.
    - exists sts1, []. split; [reflexivity|]. split; [assumption|]. split; [intros; unfold ev_sum; simpl; lia|].
      split; [|left; reflexivity]. intros d. destruct cb; [reflexivity|discriminate].
    - destruct (add_share_to_burn_spec sts1 bk cb Hw1 Hbw) as [A B].
      exists (add_share_to_burn sts1 bk cb), [(2, 0, cb)]. split; [reflexivity|]. split; [assumption|].
      split; [intros d; rewrite B; unfold ev_sum; simpl; lia|]. split; [intros; unfold ev_sum; simpl; lia|].
      right; reflexivity. }
  destruct Hburn as (sts2 & bev & Hb & Hw2 & Hr2 & Hbs & Hbf). rewrite Hb in H.
  destruct (da_type (sd_primary sd) =? T_MAIN) eqn:Em.
  - inversion H; subst; clear H. split; [assumption|]. split.
    { intros d. rewrite Hr2, ev_sum_app. destruct (Hamt d) as (E1 & _). lia. }
    split.
    { exists (fun d => dc_amt d dflt2). intros d. rewrite ev_sum_app, Hbs.
      destruct (Hamt d) as (_ & E2 & E3). destruct (Hamt2 d) as [E4 E5]. split; [assumption|]. split; [lia|]. lia. }
    exists new, [], bev. split; [reflexivity|]. split; [assumption|]. split; [assumption|]. left; reflexivity.
  - destruct (add_share_to_account sts2 (sd_primary sd) dflt2) as [sts3| |] eqn:Ea; try discriminate.
    inversion H; subst; clear H.
    destruct (add_share_to_account_spec _ _ _ _ Ea Hw2 Hd2) as [Hw3 Hr3].
    split; [assumption|]. split.
    { intros d. rewrite Hr3, Hr2. cbn [app]. rewrite ev_sum_app, ev_sum_cons. cbn [snd]. destruct (Hamt d) as (E1 & _). lia. }
    split.
    { exists (fun _ => 0). intros d. cbn [app]. rewrite ev_sum_app, ev_sum_cons, Hbs. cbn [snd].
      destruct (Hamt d) as (_ & E2 & E3). destruct (Hamt2 d) as [E4 E5]. split; [lia|]. split; [lia|]. intros _. reflexivity. }
    exists new, [(1, PRIMARY_NAME, dflt2)], bev. split; [reflexivity|]. split; [assumption|]. split; [assumption|].
    right. exists dflt2. split; [reflexivity|]. split; [lia|]. intros d.
    destruct (Hamt d) as (_ & E2 & _). destruct (Hamt2 d) as [E4 _]. lia.
Qed.

(* the truncated share law (C04): a share event's amount, per denomination, is
   floor(inflow * share) in 18-digit fixed point, between 0 and the inflow *)
Theorem share_amount_law share inflow d :
  dc_wf inflow -> dc_all_positive inflow = true -> 0 <= share <= P ->
  dc_amt d (calc_share share inflow) = (dc_amt d inflow * share) / P /\
  0 <= dc_amt d (calc_share share inflow) <= dc_amt d inflow.
Proof.
  intros Hw Hp Hs. destruct (calc_share_spec share inflow Hw) as [_ Ha]. rewrite Ha, Hp.
  pose proof (dc_all_positive_amt _ Hp d) as Hnn.
  split; [|apply dec_mul_trunc_range; assumption].
  unfold dec_mul_trunc. apply chop_trunc_nonneg. nia.
Qed.

(* ---------------------------------------------------------------- sources ------------------ *)
(* MAIN source: the inflow is exactly what the main account holds beyond the recorded remains *)
Theorem prepare_main_spec src sts b c sts' b' :
  da_type src = T_MAIN -> prepare_source src sts b = Ok (c, sts', b') ->
  states_wf sts -> dc_wf (bal_of (bk_bal b) MAINADDR) ->
  sts' = sts /\ b' = b /\
  (dc_is_zero (bal_of (bk_bal b) MAINADDR) = true -> c = []) /\
  (dc_is_zero (bal_of (bk_bal b) MAINADDR) = false ->
     dc_wf c /\ forall d, dc_amt d c = dc_amt d (bal_of (bk_bal b) MAINADDR) * P - remsum d sts /\ 0 <= dc_amt d c).
Proof.
  intros Ht H Hw Hb. unfold prepare_source in H. rewrite Ht in H. cbn [Z.eqb T_MAIN] in H.
  destruct (dc_of_coins_spec _ Hb) as [Hcw Hca].
  assert (Hzz : dc_is_zero (dc_of_coins (bal_of (bk_bal b) MAINADDR)) = dc_is_zero (bal_of (bk_bal b) MAINADDR))
    by (destruct (bal_of (bk_bal b) MAINADDR); reflexivity).
  rewrite Hzz in H. destruct (dc_is_zero (bal_of (bk_bal b) MAINADDR)) eqn:Ez.
  - inversion H; subst c sts' b'. split; [reflexivity|]. split; [reflexivity|]. split; [reflexivity|discriminate].
  - destruct (dc_sub (dc_of_coins (bal_of (bk_bal b) MAINADDR)) (rem_sum sts)) as [r| |] eqn:Es; try discriminate.
    inversion H; subst r sts' b'. destruct (dc_sub_spec _ _ _ Hcw (rem_sum_wf sts Hw) Es) as [Hrw Hra].
    split; [reflexivity|]. split; [reflexivity|]. split; [discriminate|].
    intros _. split; [assumption|]. intros d. split; [|apply Hra].
    destruct (Hra d) as [E _]. rewrite E, Hca, rem_sum_amt by assumption. reflexivity.
Qed.

(* prepareLeftCoinToDistribute: what is re-queued leaves the books — inflow + books is unchanged *)
Lemma prepare_left_spec coins src sts c sts' :
  prepare_left coins src sts = Ok (c, sts') -> states_wf sts -> dc_wf coins ->
  states_wf sts' /\ dc_wf c /\ forall d, dc_amt d c + remsum d sts' = dc_amt d coins + remsum d sts.
Proof.
  unfold prepare_left. destruct (find_account_state sts (da_id src) 0) as [[p|]| |] eqn:E; try discriminate.
  - pose proof (find_account_state_lt _ _ _ _ E) as Hp.
    set (r := st_rem (nth p sts {| st_acc := None; st_burn := false; st_key := 0; st_rem := [] |})).
    destruct (dc_is_zero r) eqn:Ez; intros H Hw Hc; inversion H; subst; clear H.
    + split; [assumption|]. split; [assumption|]. intros; lia.
    + assert (Hr : dc_wf r). { apply (proj1 (Forall_forall _ _) Hw). apply nth_In. lia. }
      split; [apply states_wf_upd; [assumption|intros; exact I]|]. split; [apply dc_add_wf; assumption|].
      intros d. rewrite remsum_upd by lia. fold r. unfold set_rem; cbn [st_rem dc_amt]. rewrite dc_add_amt by assumption. lia.
  - intros H Hw Hc; inversion H; subst. split; [assumption|]. split; [assumption|]. intros; lia.
Qed.

(* internal account as a source: no bank call; exactly its recorded remains become inflow *)
Theorem prepare_internal_spec src sts b c sts' b' :
  da_type src = T_INTERNAL -> prepare_source src sts b = Ok (c, sts', b') -> states_wf sts ->
  b' = b /\ states_wf sts' /\ dc_wf c /\ forall d, dc_amt d c + remsum d sts' = remsum d sts.
Proof.
  intros Ht H Hw. unfold prepare_source in H. rewrite Ht in H. change (T_INTERNAL =? T_MAIN) with false in H. change (T_INTERNAL =? T_INTERNAL) with true in H. cbn [fst snd] in H.
  destruct (prepare_left [] src sts) as [[c0 sts0]| |] eqn:E; try discriminate. inversion H; subst.
  destruct (prepare_left_spec _ _ _ _ _ E Hw I) as (A & B & C). split; [reflexivity|]. split; [assumption|]. split; [assumption|].
  intros d. rewrite C. reflexivity.
Qed.

(* a failed sweep (C14): the source keeps its coins when the failure leaves the bank untouched and
   contributes no inflow beyond its own recorded left-over *)
Theorem prepare_failed_sweep_spec src sts b c sts' b' :
  da_type src <> T_MAIN -> da_type src <> T_INTERNAL ->
  dc_is_zero (bal_of (bk_bal b) (da_addr src)) = false ->
  fst (next_fault b) = true ->
  prepare_source src sts b = Ok (c, sts', b') -> states_wf sts ->
  b' = failed_debit (snd (next_fault b)) (da_addr src) (bal_of (bk_bal b) (da_addr src)) /\
  states_wf sts' /\ forall d, dc_amt d c + remsum d sts' = remsum d sts.
Proof.
  intros H1 H2 Hz Hf H Hw. unfold prepare_source in H.
  destruct (da_type src =? T_MAIN) eqn:E1; [lia|]. destruct (da_type src =? T_INTERNAL) eqn:E2; [lia|].
  rewrite Hz in H. unfold transfer in H. destruct (next_fault b) as [f b1] eqn:En. simpl in Hf. subst f.
  cbn [fst snd] in H.
  replace (bk_bal b1) with (bk_bal b) in H by (unfold next_fault in En; destruct (bk_faults b); inversion En; reflexivity).
  destruct (prepare_left [] src sts) as [[c0 sts0]| |] eqn:E; try discriminate. inversion H; subst.
  destruct (prepare_left_spec _ _ _ _ _ E Hw I) as (A & B & C).
  split; [reflexivity|]. split; [assumption|]. intros d. rewrite C. reflexivity.
Qed.

(* ---------------------------------------------------------------- payouts ------------------ *)
Lemma bal_of_aset_same a v l : bal_of (aset a v l) a = v.
Proof. unfold bal_of. rewrite aget_aset_same. reflexivity. Qed.
Lemma bal_of_aset_other a a' v l : a' <> a -> bal_of (aset a v l) a' = bal_of l a'.
Proof. intros. unfold bal_of. rewrite aget_aset_other by assumption. reflexivity. Qed.

(* a state that does not pay in this block is left alone, and so is the bank *)
Theorem payout_skips s b a :
  st_acc s = Some a -> (da_type a = T_INTERNAL \/ dc_any_gte1 (st_rem s) = false) -> payout s b = Ok (s, b).
Proof.
  intros Ha H. unfold payout. rewrite Ha. destruct H as [H|H].
  - rewrite H. reflexivity.
  - rewrite H, andb_false_r. reflexivity.
Qed.

(* a successful payout / burn moves exactly the integer part out of both the books and the main
   account, and into the destination (or out of the supply) *)
Theorem payout_success_spec s b a s' b' :
  st_acc s = Some a -> da_type a <> T_INTERNAL -> dc_any_gte1 (st_rem s) = true ->
  fst (next_fault b) = false -> payout s b = Ok (s', b') ->
  dc_wf (st_rem s) -> dc_wf (bal_of (bk_bal b) MAINADDR) -> (st_burn s = false -> da_addr a <> MAINADDR /\ dc_wf (bal_of (bk_bal b) (da_addr a))) ->
  dc_wf (bk_burned b) ->
  forall d, let sent := chop_trunc (dc_amt d (st_rem s)) in
    dc_amt d (st_rem s') = dc_amt d (st_rem s) - sent * P /\
    dc_amt d (bal_of (bk_bal b') MAINADDR) = dc_amt d (bal_of (bk_bal b) MAINADDR) - sent /\
    (if st_burn s then dc_amt d (bk_burned b') = dc_amt d (bk_burned b) + sent
     else dc_amt d (bal_of (bk_bal b') (da_addr a)) = dc_amt d (bal_of (bk_bal b) (da_addr a)) + sent
          /\ bk_burned b' = bk_burned b).
Proof.
  intros Ha Ht Hg Hf H Hrw Hmw Hdw Hbw d. cbv zeta. unfold payout in H. rewrite Ha in H.
  assert (Hti : (da_type a =? T_INTERNAL) = false) by lia. rewrite Hti, Hg in H. cbn [negb andb] in H.
  destruct (dc_trunc (st_rem s)) as [to_send change] eqn:Et.
  destruct (dc_trunc_spec _ Hrw) as (Hsw & Hcw & Htr). rewrite Et in Hsw, Hcw, Htr. cbn [fst snd] in *.
  destruct (Htr d) as [Hs1 Hs2].
  assert (Hbal : bk_bal (snd (next_fault b)) = bk_bal b /\ bk_burned (snd (next_fault b)) = bk_burned b)
    by (unfold next_fault; destruct (bk_faults b); split; reflexivity).
  destruct Hbal as [Hbal Hbur].
  destruct (st_burn s) eqn:Eb.
  - unfold burn in H. destruct (next_fault b) as [f b1] eqn:En. simpl in Hf. subst f. cbn [snd] in *.
    inversion H; subst; clear H. cbn [st_rem set_rem bk_bal bk_burned]. rewrite Hbal, Hbur.
    split; [rewrite Hs2; reflexivity|]. split.
    + rewrite bal_of_aset_same, dc_add_amt, dc_neg_amt, Hs1; [lia|assumption|apply dc_neg_sorted; assumption].
    + rewrite dc_add_amt, Hs1 by assumption. reflexivity.
  - destruct (Hdw eq_refl) as [Hne Hdw']. unfold transfer in H. destruct (next_fault b) as [f b1] eqn:En. simpl in Hf. subst f. cbn [snd] in *.
    inversion H; subst; clear H. cbn [st_rem set_rem bk_bal bk_burned]. rewrite Hbal, Hbur.
    split; [rewrite Hs2; reflexivity|]. split.
    + rewrite bal_of_aset_other by (intros Hc; apply Hne; symmetry; exact Hc). rewrite bal_of_aset_same, dc_add_amt, dc_neg_amt, Hs1; [lia|assumption|apply dc_neg_sorted; assumption].
    + split; [|reflexivity]. rewrite bal_of_aset_same, bal_of_aset_other by assumption.
      rewrite dc_add_amt, Hs1 by assumption. reflexivity.
Qed.

(* a failed payout / burn (C14): the state keeps its full remains and is retried next block *)
Theorem payout_failure_keeps_remains s b a s' b' :
  st_acc s = Some a -> fst (next_fault b) = true -> payout s b = Ok (s', b') -> s' = s.
Proof.
  intros Ha Hf H. unfold payout in H. rewrite Ha in H.
  destruct (negb (da_type a =? T_INTERNAL) && dc_any_gte1 (st_rem s)); [|inversion H; reflexivity].
  destruct (dc_trunc (st_rem s)) as [to_send change].
  destruct (st_burn s).
  - unfold burn in H. destruct (next_fault b) as [f b1]. simpl in Hf. subst f. inversion H; reflexivity.
  - unfold transfer in H. destruct (next_fault b) as [f b1]. simpl in Hf. subst f. inversion H; reflexivity.
Qed.

(* a failed bank call whose funds are sufficient leaves the bank untouched *)
Theorem failed_debit_sufficient b from c :
  snd (partial_debit (bal_of (bk_bal b) from) c) = true -> failed_debit b from c = b.
Proof. unfold failed_debit. destruct (partial_debit (bal_of (bk_bal b) from) c) as [h ok]. simpl. intros ->. reflexivity. Qed.

(* ---------------------------------------------------------------- no panic (C10) ----------- *)

Definition has_acc (s : dstate) : Prop := st_acc s <> None.

Lemma find_account_state_ok sts id : forall start, Forall has_acc sts -> exists r, find_account_state sts id start = Ok r.
Proof.
  induction sts as [|s t IH]; intros start H; simpl; [eauto|]. inversion H as [|? ? Hs Ht]; subst.
  unfold has_acc in Hs. destruct (st_acc s) as [a|]; [|contradiction]. destruct (da_id a =? id); [eauto|apply IH; assumption].
Qed.

Lemma has_acc_upd sts : forall pos f, Forall has_acc sts -> (forall s, st_acc (f s) = st_acc s) -> Forall has_acc (upd_state sts pos f).
Proof.
  induction sts as [|s t IH]; intros pos f H Hf; [exact H|]. inversion H; subst.
  destruct pos; simpl; constructor; auto. unfold has_acc in *. rewrite Hf. assumption.
Qed.

Lemma add_share_to_account_ok sts dest share : Forall has_acc sts ->
  exists sts', add_share_to_account sts dest share = Ok sts' /\ Forall has_acc sts'.
Proof.
  intros H. unfold add_share_to_account. destruct (find_account_state_ok sts (da_id dest) 0 H) as [[p|] Hr]; rewrite Hr.
  - eexists. split; [reflexivity|]. apply has_acc_upd; [assumption|reflexivity].
  - eexists. split; [reflexivity|]. apply Forall_app. split; [assumption|]. repeat constructor. discriminate.
Qed.

Lemma add_share_to_burn_has_acc sts bk share : Forall has_acc sts -> Forall has_acc (add_share_to_burn sts bk share).
Proof.
  intros H. unfold add_share_to_burn. destruct (find_burn_state sts 0).
  - apply has_acc_upd; [assumption|reflexivity].
  - apply Forall_app. split; [assumption|]. repeat constructor. discriminate.
Qed.

Lemma dc_any_neg_false_intro r : forall lo, dc_sorted lo r -> (forall d, 0 <= dc_amt d r) -> dc_any_neg r = false.
Proof.
  induction r as [|[d0 v] t IH]; intros lo Hs Hn; [reflexivity|].
  simpl in Hs. destruct Hs as [H1 H2]. unfold dc_any_neg. cbn [existsb snd]. apply orb_false_iff. split.
  - specialize (Hn d0). simpl in Hn. rewrite Z.eqb_refl in Hn. lia.
  - apply (IH d0 H2). intros d. destruct (Z.eq_dec d d0) as [->|Hne].
    + rewrite (dc_amt_above t d0 d0 H2) by lia. lia.
    + specialize (Hn d). simpl in Hn. destruct (d =? d0) eqn:E; [lia|exact Hn].
Qed.

Lemma dc_sub_ok a b : dc_wf a -> dc_wf b -> (forall d, dc_amt d b <= dc_amt d a) -> exists r, dc_sub a b = Ok r.
Proof.
  intros Ha Hb Hle. unfold dc_sub.
  assert (Hw : dc_wf (dc_add a (dc_neg b))) by (apply dc_add_wf; [assumption|apply dc_neg_sorted; assumption]).
  rewrite (dc_any_neg_false_intro _ (-1) Hw); [eauto|].
  intros d. rewrite dc_add_amt, dc_neg_amt; [specialize (Hle d); lia|assumption|apply dc_neg_sorted; assumption].
Qed.

Definition shares_total (shares : list dshare) : Z := zsum (map sh_share shares).
Definition shares_ok (shares : list dshare) : Prop := Forall (fun sh => 0 <= sh_share sh) shares.

Lemma shares_nonneg_total t : shares_ok t -> 0 <= zsum (map sh_share t).
Proof. intros H. induction H as [|x l Hx Hl IH]; simpl; lia. Qed.

Lemma trunc_share_le x s : 0 <= x -> 0 <= s -> dec_mul_trunc x s * P <= x * s.
Proof.
  intros Hx Hs. unfold dec_mul_trunc. pose proof P_pos as HP. rewrite chop_trunc_nonneg by nia.
  pose proof (Z.div_mod (x * s) P ltac:(lia)). pose proof (Z.mod_pos_bound (x * s) P HP). lia.
Qed.

Lemma distribute_shares_no_panic shares inflow : dc_wf inflow -> dc_all_positive inflow = true ->
  forall sts dflt evs S,
  shares_ok shares -> 0 <= S -> S + shares_total shares <= P ->
  Forall has_acc sts -> dc_wf dflt ->
  (forall d, dc_amt d inflow * (P - S) <= dc_amt d dflt * P) ->
  exists sts' dflt' evs', distribute_shares shares inflow sts dflt evs = Ok (sts', dflt', evs') /\
    Forall has_acc sts' /\ dc_wf dflt' /\
    forall d, dc_amt d inflow * (P - (S + shares_total shares)) <= dc_amt d dflt' * P.
Proof.
  intros Hin Hpos. induction shares as [|sh t IH]; intros sts dflt evs S Hok HS Htot Hacc Hd Hinv.
  - cbn [distribute_shares]. exists sts, dflt, evs. unfold shares_total; cbn [map zsum]. split; [reflexivity|]. split; [assumption|]. split; [assumption|].
    intros d. replace (S + 0) with S by lia. apply Hinv.
  - inversion Hok as [|? ? Hs0 Hok']; subst. unfold shares_total in *. cbn [map zsum] in *.
    pose proof (shares_nonneg_total t Hok') as Htn.
    cbn [distribute_shares]. destruct (da_type (sh_dest sh) =? T_MAIN).
    + (* skipped share: the remainder keeps more than the invariant needs *)
      destruct (IH sts dflt evs S Hok' HS ltac:(lia) Hacc Hd Hinv) as (s' & d' & e' & Hr & A & B & C).
      exists s', d', e'. split; [exact Hr|]. split; [assumption|]. split; [assumption|].
      intros d. specialize (C d). pose proof (dc_all_positive_amt _ Hpos d). nia.
    + destruct (calc_share_spec (sh_share sh) inflow Hin) as [Hcw Hca].
      assert (Hle : forall d, dc_amt d (calc_share (sh_share sh) inflow) <= dc_amt d dflt).
      { intros d. rewrite Hca, Hpos. pose proof (dc_all_positive_amt _ Hpos d) as Hx.
        pose proof (trunc_share_le (dc_amt d inflow) (sh_share sh) Hx Hs0). specialize (Hinv d). pose proof P_pos. nia. }
      destruct (dc_sub_ok _ _ Hd Hcw Hle) as [dflt1 Hsub]. rewrite Hsub.
      destruct (dc_sub_spec _ _ _ Hd Hcw Hsub) as [Hd1 Hamt1].
      assert (Hinv1 : forall d, dc_amt d inflow * (P - (S + sh_share sh)) <= dc_amt d dflt1 * P).
      { intros d. destruct (Hamt1 d) as [-> _]. rewrite Hca, Hpos. pose proof (dc_all_positive_amt _ Hpos d) as Hx.
        pose proof (trunc_share_le (dc_amt d inflow) (sh_share sh) Hx Hs0). specialize (Hinv d). nia. }
      destruct (dc_is_zero (calc_share (sh_share sh) inflow)).
      * destruct (IH sts dflt1 evs (S + sh_share sh) Hok' ltac:(lia) ltac:(lia) Hacc Hd1 Hinv1) as (s' & d' & e' & Hr & A & B & C).
        exists s', d', e'. split; [exact Hr|]. split; [assumption|]. split; [assumption|].
        intros d. specialize (C d). replace (S + (sh_share sh + zsum (map sh_share t))) with (S + sh_share sh + zsum (map sh_share t)) by lia. exact C.
      * destruct (add_share_to_account_ok sts (sh_dest sh) (calc_share (sh_share sh) inflow) Hacc) as (sts1 & Ha & Hacc1). rewrite Ha.
        destruct (IH sts1 dflt1 (evs ++ [(1, sh_name sh, calc_share (sh_share sh) inflow)]) (S + sh_share sh) Hok' ltac:(lia) ltac:(lia) Hacc1 Hd1 Hinv1)
          as (s' & d' & e' & Hr & A & B & C).
        exists s', d', e'. split; [exact Hr|]. split; [assumption|]. split; [assumption|].
        intros d. specialize (C d). replace (S + (sh_share sh + zsum (map sh_share t))) with (S + sh_share sh + zsum (map sh_share t)) by lia. exact C.
Qed.

(* C10, distributor: for a sub-distributor whose shares are non-negative and together with the burn
   share do not exceed 1 (what validation enforces), an all-positive inflow and states that all carry
   an account (what the keeper writes, and — after F4 — what genesis import restores), one
   StartDistributionProcess never panics: no DecCoins.Sub goes negative, no nil account is touched *)
Theorem start_distribution_no_panic sd inflow sts bk :
  dc_wf inflow -> dc_all_positive inflow = true ->
  shares_ok (sd_shares sd) -> 0 <= sd_burn sd -> shares_total (sd_shares sd) + sd_burn sd <= P ->
  Forall has_acc sts ->
  exists sts' evs, start_distribution sd inflow sts bk = Ok (sts', evs) /\ Forall has_acc sts'.
Proof.
  intros Hin Hpos Hok Hb Htot Hacc. unfold start_distribution.
  destruct (distribute_shares_no_panic (sd_shares sd) inflow Hin Hpos sts inflow [] 0 Hok ltac:(lia) ltac:(lia) Hacc Hin
              ltac:(intros d; pose proof (dc_all_positive_amt _ Hpos d); nia)) as (sts1 & dflt1 & evs1 & Hr & Hacc1 & Hd1 & Hinv).
  rewrite Hr.
  destruct (calc_share_spec (sd_burn sd) inflow Hin) as [Hcw Hca].
  assert (Hle : forall d, dc_amt d (calc_share (sd_burn sd) inflow) <= dc_amt d dflt1).
  { intros d. rewrite Hca, Hpos. pose proof (dc_all_positive_amt _ Hpos d) as Hx.
    pose proof (trunc_share_le (dc_amt d inflow) (sd_burn sd) Hx Hb). specialize (Hinv d). pose proof P_pos. nia. }
  destruct (dc_sub_ok _ _ Hd1 Hcw Hle) as [dflt2 Hsub]. rewrite Hsub.
  destruct (dc_sub_spec _ _ _ Hd1 Hcw Hsub) as [Hd2 _].
  destruct (dc_is_zero (calc_share (sd_burn sd) inflow)).
  - destruct (da_type (sd_primary sd) =? T_MAIN); [eauto|].
    destruct (add_share_to_account_ok sts1 (sd_primary sd) dflt2 Hacc1) as (sts3 & Ha & Hacc3). rewrite Ha. eauto.
  - pose proof (add_share_to_burn_has_acc sts1 bk (calc_share (sd_burn sd) inflow) Hacc1) as Hacc2.
    destruct (da_type (sd_primary sd) =? T_MAIN); [eauto|].
    destruct (add_share_to_account_ok _ (sd_primary sd) dflt2 Hacc2) as (sts3 & Ha & Hacc3). rewrite Ha. eauto.
Qed.

(* payouts never touch a nil account either *)
Theorem payout_all_no_panic sts : forall b, Forall has_acc sts -> exists r, payout_all sts b = Ok r.
Proof.
  induction sts as [|s t IH]; intros b H; simpl; [eauto|]. inversion H as [|? ? Hs Ht]; subst.
  unfold payout. unfold has_acc in Hs. destruct (st_acc s) as [a|]; [|contradiction].
  destruct (negb (da_type a =? T_INTERNAL) && dc_any_gte1 (st_rem s)).
  - destruct (dc_trunc (st_rem s)) as [ts ch]. destruct (st_burn s).
    + destruct (burn b MAINADDR ts) as [ok b1]. destruct (IH b1 Ht) as [[t' b2] Hr]. rewrite Hr. eauto.
    + destruct (transfer b MAINADDR (da_addr a) ts) as [ok b1]. destruct (IH b1 Ht) as [[t' b2] Hr]. rewrite Hr. eauto.
  - destruct (IH b Ht) as [[t' b2] Hr]. rewrite Hr. eauto.
Qed.
