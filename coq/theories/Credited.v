(* Credited.v — C14: what a destination has been credited (its bank balance, or for the burn state the
   burned total, in 10^-18 units, plus its recorded remains) is not changed by a payout attempt,
   whether the bank call succeeds or fails: a failure only postpones the payment. *)
From C4E Require Import Base Minter Distributor DistrCoins DistrProofs SupplyProofs Books.
From Coq Require Import Lia ZifyBool.
Open Scope Z_scope.

Definition credited (s : dstate) (b : bank) (d : Z) : Z :=
  match st_acc s with
  | None => 0
  | Some a => (if st_burn s then dc_amt d (bk_burned b) else dc_amt d (bal_of (bk_bal b) (da_addr a))) * P + dc_amt d (st_rem s)
  end.

Theorem payout_keeps_credited s b :
  dc_wf (st_rem s) -> (forall d, 0 <= dc_amt d (st_rem s)) -> has_acc s -> state_plain s ->
  bal_wf (bk_bal b) -> bal_nonneg (bk_bal b) -> dc_wf (bk_burned b) ->
  (forall d, dc_amt d (st_rem s) <= mainbal b d * P) ->
  forall s' b', payout s b = Ok (s', b') -> forall d, credited s' b' d = credited s b d.
Proof.
  intros Hrw Hrn Hacc Hpl Hbw Hbn Hbu Hcov s' b' H d. unfold payout in H. unfold has_acc in Hacc. unfold state_plain in Hpl. unfold credited.
  destruct (st_acc s) as [a|] eqn:Ea; [|contradiction].
  destruct (negb (da_type a =? T_INTERNAL) && dc_any_gte1 (st_rem s)) eqn:Eg.
  2:{ inversion H; subst. rewrite Ea. reflexivity. }
  destruct (dc_trunc (st_rem s)) as [to_send change] eqn:Et.
  destruct (dc_trunc_spec _ Hrw) as (Hsw & Hcw & Htr). rewrite Et in Hsw, Hcw, Htr. cbn [fst snd] in *.
  pose proof P_pos as HP.
  assert (Hsend : forall d, 0 <= dc_amt d to_send <= dc_amt d (bal_of (bk_bal b) MAINADDR)).
  { intros d0. destruct (Htr d0) as [Hs1 _]. rewrite Hs1. specialize (Hrn d0). specialize (Hcov d0). unfold mainbal in Hcov.
    rewrite chop_trunc_nonneg by exact Hrn. split; [apply Z.div_pos; lia|]. apply Z.div_le_upper_bound; lia. }
  apply andb_true_iff in Eg as [Eg1 _]. destruct (Htr d) as [Hs1 Hs2].
  destruct (st_burn s) eqn:Eb.
  - destruct (burn b MAINADDR to_send) as [ok b1] eqn:Ebn. inversion H; subst; clear H.
    unfold burn in Ebn. destruct (next_fault b) as [f b0] eqn:En.
    pose proof (next_fault_bal b) as [Hb1 Hb2]. rewrite En in Hb1, Hb2. cbn [snd] in Hb1, Hb2.
    destruct f; inversion Ebn; subst; clear Ebn.
    + assert (Hfd : failed_debit b0 MAINADDR to_send = b0) by (apply failed_debit_covered; rewrite ?Hb1; [apply Hbw | exact Hsw | exact Hsend]).
      rewrite Hfd, Ea, Eb, Hb2. reflexivity.
    + cbn [set_rem st_acc st_burn st_rem bk_burned]. rewrite Ea, Hb2. rewrite dc_add_amt by assumption. rewrite Hs2, Hs1. lia.
  - assert (Hne : MAINADDR <> da_addr a) by (intros E; apply (Hpl eq_refl); [lia | symmetry; exact E]).
    destruct (transfer b MAINADDR (da_addr a) to_send) as [ok b1] eqn:Etr. inversion H; subst; clear H.
    destruct (transfer_effect _ _ _ _ _ _ Etr Hne Hbw Hsw Hsend) as (T1 & T2 & T3 & T4 & T5).
    destruct ok; cbn [set_rem st_acc st_burn st_rem]; rewrite Ea, ?Eb, T5; [rewrite Hs2, Hs1; lia | lia].
Qed.
