(* Postponed.v — C14, failing sweeps: a sweep that fails leaves the coins in the source account, and the next sweep that goes through
   collects them together with what arrived since.  What a sub-distributor credits for an inflow collected at once differs from what
   it credits for the same coins collected in two blocks only by the truncation to 18 digits: at most one 10^-18 unit per named
   share (and the burn share), in favour of the named share; the primary destination, which takes the remainder, gets
   correspondingly less; the total is the same. *)
From C4E Require Import Base Minter Distributor DistrCoins DistrProofs Drift.
From Coq Require Import Lia ZifyBool.
Open Scope Z_scope.

Lemma postponed_share x y s : 0 <= x -> 0 <= y -> 0 <= s ->
  0 <= dec_mul_trunc (x + y) s - (dec_mul_trunc x s + dec_mul_trunc y s) <= 1.
Proof.
  intros Hx Hy Hs. pose proof P_pos as HP.
  pose proof (step_drift x s Hx Hs). pose proof (step_drift y s Hy Hs). pose proof (step_drift (x + y) s ltac:(lia) Hs).
  nia.
Qed.

(* what the named shares (the burn share among them) take out of an inflow, and what is left for the primary destination *)
Fixpoint named_total (shares : list Z) (inflow : Z) : Z :=
  match shares with [] => 0 | s :: t => dec_mul_trunc inflow s + named_total t inflow end.
Definition primary_part (shares : list Z) (inflow : Z) : Z := inflow - named_total shares inflow.

Theorem postponed_named_total shares x y :
  0 <= x -> 0 <= y -> Forall (fun s => 0 <= s) shares ->
  0 <= named_total shares (x + y) - (named_total shares x + named_total shares y) <= Z.of_nat (length shares).
Proof.
  intros Hx Hy Hf. induction Hf as [|s t Hs _ IH]; cbn [named_total length]; [lia|].
  pose proof (postponed_share x y s Hx Hy Hs). lia.
Qed.

Theorem postponed_primary_part shares x y :
  0 <= x -> 0 <= y -> Forall (fun s => 0 <= s) shares ->
  - Z.of_nat (length shares) <= primary_part shares (x + y) - (primary_part shares x + primary_part shares y) <= 0.
Proof.
  intros Hx Hy Hf. unfold primary_part. pose proof (postponed_named_total shares x y Hx Hy Hf). lia.
Qed.

(* nothing is lost either way: named shares and primary part always add up to the inflow *)
Theorem postponed_conservation shares x y :
  named_total shares (x + y) + primary_part shares (x + y) =
  (named_total shares x + primary_part shares x) + (named_total shares y + primary_part shares y).
Proof. unfold primary_part. lia. Qed.

(* ---- the same about the model's own share walk (Ledger.a_shares, the credited-amounts machine that Distributor.dist_begin_block
   refines): what it leaves for the primary destination is the inflow minus the named total of the shares it takes out *)
From C4E Require Import Ledger.

Definition taken_shares (shares : list dshare) : list Z :=
  map sh_share (filter (fun sh => negb (da_type (sh_dest sh) =? T_MAIN)) shares).

Lemma a_shares_leaves shares inflow : forall st dflt,
  snd (a_shares shares inflow st dflt) = dflt - named_total (taken_shares shares) inflow.
Proof.
  induction shares as [|sh t IH]; intros st dflt; cbn [a_shares taken_shares filter map named_total]; [cbn; lia|].
  destruct (da_type (sh_dest sh) =? T_MAIN) eqn:E; cbn [negb].
  - rewrite IH. reflexivity.
  - cbn [map named_total]. rewrite IH. fold (taken_shares t). lia.
Qed.

Theorem machine_postponed_primary shares x y st1 st2 st3 :
  0 <= x -> 0 <= y -> Forall (fun s => 0 <= s) (taken_shares shares) ->
  let left i st := snd (a_shares shares i st i) in
  - Z.of_nat (length (taken_shares shares)) <= left (x + y) st3 - (left x st1 + left y st2) <= 0.
Proof.
  intros Hx Hy Hf left. unfold left. rewrite !a_shares_leaves.
  pose proof (postponed_primary_part (taken_shares shares) x y Hx Hy Hf) as H. unfold primary_part in H. lia.
Qed.
