(* SplitProofs.v — C07 at the level of accounts and balances: what a successful split / move does
   to the sender's and the recipient's locked, spendable and vesting coins. *)
From C4E Require Import Base Vest VestFrame VestProofs SolventProofs SendProofs AccountsProofs SplitArith.
From Coq Require Import ZifyBool.
Open Scope Z_scope.

Lemma coins_amt_cons d0 u t d : coins_amt d ((d0, u) :: t) = (if d0 =? d then u else 0) + coins_amt d t.
Proof. reflexivity. Qed.

Lemma coins_valid_from_above c : forall lo d, coins_valid_from lo c = true -> d <= lo -> coins_amt d c = 0.
Proof.
  induction c as [|[d0 u] t IH]; intros lo d H Hd; [reflexivity|].
  simpl in H. apply andb_true_iff in H. destruct H as [H1 H2]. apply andb_true_iff in H1. destruct H1 as [Hlo Hu].
  rewrite coins_amt_cons. rewrite (IH d0 d H2) by lia. destruct (d0 =? d) eqn:E; lia.
Qed.

Lemma camt_cset_same d v c : camt d (cset d v c) = v. Proof. apply zget_aset_same. Qed.
Lemma camt_cset_other d d' v c : d' <> d -> camt d' (cset d v c) = camt d' c. Proof. apply zget_aset_other. Qed.

Lemma unlock_all_camt s e n c : forall lo ov d, coins_valid_from lo c = true ->
  camt d (unlock_all s e n ov c) =
    if 0 <? coins_amt d c then unlock_ov s e n (camt d ov) (coins_amt d c) else camt d ov.
Proof.
  induction c as [|[d0 u] t IH]; intros lo ov d H; [reflexivity|].
  simpl in H. apply andb_true_iff in H. destruct H as [H1 H2]. apply andb_true_iff in H1. destruct H1 as [Hlo Hu].
  cbn [unlock_all]. assert (Hu' : (0 <? u) = true) by lia. rewrite Hu'.
  rewrite (IH d0 _ d H2). rewrite coins_amt_cons.
  destruct (d0 =? d) eqn:E.
  - assert (d0 = d) by lia. subst d0. rewrite (coins_valid_from_above t d d H2) by lia.
    replace (u + 0) with u by lia. rewrite Hu'. cbn [Z.ltb Z.compare]. apply camt_cset_same.
  - rewrite camt_cset_other by lia. reflexivity.
Qed.

Lemma all_lte_locked_amt x now_s c : forall lo, coins_valid_from lo c = true -> all_lte_locked x now_s c = true ->
  forall d, 0 < coins_amt d c -> coins_amt d c <= acct_locked x now_s d.
Proof.
  induction c as [|[d0 u] t IH]; intros lo Hv H d Hd; [unfold coins_amt in Hd; simpl in Hd; lia|].
  simpl in Hv. apply andb_true_iff in Hv. destruct Hv as [H1 H2]. apply andb_true_iff in H1. destruct H1 as [Hlo Hu].
  unfold all_lte_locked in H. simpl in H. apply andb_true_iff in H. destruct H as [Ha Hb]. cbn [fst snd] in Ha.
  rewrite coins_amt_cons in *. destruct (d0 =? d) eqn:E.
  - assert (d0 = d) by lia. subst d0. rewrite (coins_valid_from_above t d d H2) in * by lia. apply Z.leb_le in Ha. lia.
  - apply (IH d0 H2 Hb d). lia.
Qed.

(* arithmetic of LockedCoins around an exact unlock *)
Lemma locked_after_unlock s e n ov dv u :
  0 <= ov -> 0 <= dv -> 1 <= u <= locked_amt s e n ov dv ->
  locked_amt s e n (unlock_ov s e n ov u) dv = locked_amt s e n ov dv - u.
Proof.
  intros Hov Hdv Hu. unfold locked_amt in *. cbv zeta in *.
  pose proof (vesting_amt_range s e n ov Hov) as Hr.
  assert (Hv : 1 <= u <= vesting_amt s e n ov) by lia.
  destruct (unlock_ov_exact s e n ov u Hov Hv) as [-> _]. lia.
Qed.

Record split_effect (w w' : world) (from to : Z) (c : coins) (x : acct) : Prop := {
  se_now : w_now w' = w_now w;
  se_rcpt_new : aget to (w_acc w) = None;
  se_rcpt : aget to (w_acc w') =
            Some {| a_kind := 2; a_ov := c; a_dv := []; a_df := [];
                    a_start := Z.max (unix (w_now w)) (a_start x); a_end := a_end x |};
  se_sender : exists x', aget from (w_acc w') = Some x' /\ same_but_ov x x' /\
              forall d, camt d (a_ov x') = if 0 <? coins_amt d c
                                           then unlock_ov (a_start x) (a_end x) (unix (w_now w)) (camt d (a_ov x)) (coins_amt d c)
                                           else camt d (a_ov x);
  se_bal : forall a d, bal w' a d = bal w a d - (if a =? from then coins_amt d c else 0) + (if a =? to then coins_amt d c else 0);
  se_amounts : forall d, 0 <= coins_amt d c /\ (0 < coins_amt d c -> coins_amt d c <= acct_locked x (unix (w_now w)) d);
  se_others : forall a, a <> from -> a <> to -> aget a (w_acc w') = aget a (w_acc w) }.

Lemma camt_coins_amt c : forall lo d, coins_valid_from lo c = true -> camt d c = coins_amt d c.
Proof.
  induction c as [|[d0 u] t IH]; intros lo d H; [reflexivity|].
  simpl in H. apply andb_true_iff in H. destruct H as [H1 H2]. apply andb_true_iff in H1. destruct H1 as [Hlo Hu].
  rewrite coins_amt_cons. unfold camt, zget in *. simpl.
  destruct (d =? d0) eqn:E.
  - assert (d = d0) by lia. subst. rewrite Z.eqb_refl. rewrite (coins_valid_from_above t d0 d0 H2) by lia. lia.
  - rewrite Z.eqb_sym, E. simpl. apply (IH d0 d H2).
Qed.

Theorem split_coins_effect w from to c w' x :
  split_vesting_coins w from to c = Some w' -> aget from (w_acc w) = Some x ->
  split_effect w w' from to c x.
Proof.
  intros H Hx0.
  destruct (split_coins_unfold _ _ _ _ _ H) as (x1 & w3 & Hne & Hbl & Hto & Hval & Hx & Hk & Hlte & Hs & Hw').
  rewrite Hx in Hx0. inversion Hx0; subst x1. clear Hx0. cbn zeta in Hs.
  assert (Hacc : w_acc w' = w_acc w3) by (subst w'; destruct (aget from (w_traces w3)); reflexivity).
  assert (Hbal : forall a d, bal w' a d = bal w3 a d) by (intros; subst w'; destruct (aget from (w_traces w3)); reflexivity).
  assert (Hnow : w_now w' = w_now w3) by (subst w'; destruct (aget from (w_traces w3)); reflexivity).
  assert (Hft : from <> to) by congruence.
  pose proof (send_coins_static _ _ _ _ _ Hs) as (Hn3 & _).
  constructor.
  - rewrite Hnow. exact Hn3.
  - assumption.
  - rewrite Hacc, (send_coins_acc _ _ _ _ _ Hs to). unfold new_cva, set_acc; cbn [w_acc].
    rewrite aget_aset_same. reflexivity.
  - eexists. split.
    + rewrite Hacc, (send_coins_acc _ _ _ _ _ Hs from). unfold new_cva, set_acc; cbn [w_acc].
      rewrite aget_aset_other by assumption. rewrite aget_aset_same. reflexivity.
    + split; [unfold same_but_ov; simpl; auto|]. cbn [a_ov]. intros d.
      apply (unlock_all_camt _ _ _ c (-1)). exact Hval.
  - intros a d. rewrite Hbal, (send_coins_bal _ _ _ _ _ Hs). reflexivity.
  - intros d. split; [apply (coins_valid_from_nonneg c (-1) d Hval)|].
    apply (all_lte_locked_amt x _ c (-1) Hval Hlte).
  - intros a H1 H2. rewrite Hacc, (send_coins_acc _ _ _ _ _ Hs a). unfold new_cva, set_acc; cbn [w_acc].
    rewrite !aget_aset_other by assumption. destruct (aget a (w_acc w)); [reflexivity|].
    destruct (a =? to) eqn:E; [lia|reflexivity].
Qed.

(* C07 (1)-(3): the sender's locked coins drop by exactly the requested amount, per denomination;
   its spendable balance is unchanged; the recipient is a new account whose locked coins are exactly
   that amount, all of it original vesting, with the sender's end time and start max(now, start) *)
Theorem split_exact w from to c w' x :
  split_vesting_coins w from to c = Some w' -> aget from (w_acc w) = Some x ->
  (forall d, 0 <= camt d (a_ov x) /\ 0 <= camt d (a_dv x)) ->
  forall d,
    locked w' from d = locked w from d - coins_amt d c /\
    spendable w' from d = spendable w from d /\
    locked w' to d = coins_amt d c /\
    bal w' to d = bal w to d + coins_amt d c.
Proof.
  intros H Hx Hnn d. pose proof (split_coins_effect _ _ _ _ _ _ H Hx) as E.
  destruct (split_coins_unfold _ _ _ _ _ H) as (x1 & w3 & _ & _ & Hto & Hval & Hx1 & Hk & _).
  rewrite Hx in Hx1; inversion Hx1; subst x1; clear Hx1.
  assert (Hft : from <> to) by congruence.
  destruct (se_sender _ _ _ _ _ _ E) as (x' & Hx' & (Hk' & Hdv & Hdf & Hst & Hen) & Hov).
  destruct (se_amounts _ _ _ _ _ _ E d) as [Hc0 Hcl].
  assert (Hl : locked w' from d = locked w from d - coins_amt d c).
  { unfold locked. rewrite Hx', Hx, (se_now _ _ _ _ _ _ E). unfold acct_locked.
    rewrite Hk', Hk. cbn [Z.eqb Pos.eqb]. rewrite Hst, Hen, Hdv, Hov.
    destruct (0 <? coins_amt d c) eqn:Epos.
    - apply locked_after_unlock; [apply Hnn|apply Hnn|]. specialize (Hcl ltac:(lia)). unfold acct_locked in Hcl.
      rewrite Hk in Hcl. cbn [Z.eqb Pos.eqb] in Hcl. lia.
    - lia. }
  assert (Hb : bal w' from d = bal w from d - coins_amt d c).
  { rewrite (se_bal _ _ _ _ _ _ E). rewrite Z.eqb_refl. destruct (from =? to) eqn:Eft; lia. }
  split; [exact Hl|]. split; [unfold spendable; lia|]. split.
  - unfold locked. rewrite (se_rcpt _ _ _ _ _ _ E), (se_now _ _ _ _ _ _ E). unfold acct_locked. cbn [a_kind Z.eqb Pos.eqb a_start a_end a_ov a_dv].
    unfold locked_amt. rewrite vesting_amt_before by lia.
    rewrite (camt_coins_amt c (-1) d Hval). unfold camt, zget; simpl. lia.
  - rewrite (se_bal _ _ _ _ _ _ E). rewrite Z.eqb_refl. destruct (to =? from) eqn:Eft; lia.
Qed.

(* at every time up to the recipient's start and from the common end on, the two accounts together
   have vesting exactly what the sender alone had *)
Theorem split_total_vesting_at_now w from to c w' x :
  split_vesting_coins w from to c = Some w' -> aget from (w_acc w) = Some x ->
  (forall d, 0 <= camt d (a_ov x) /\ 0 <= camt d (a_dv x)) ->
  forall d, exists x' y', aget from (w_acc w') = Some x' /\ aget to (w_acc w') = Some y' /\
    acct_vesting x' (unix (w_now w)) d + acct_vesting y' (unix (w_now w)) d = acct_vesting x (unix (w_now w)) d /\
    (forall t, a_end x <= t -> a_start x < t -> unix (w_now w) < t ->
       acct_vesting x' t d + acct_vesting y' t d = 0 /\ acct_vesting x t d = 0).
Proof.
  intros H Hx Hnn d. pose proof (split_coins_effect _ _ _ _ _ _ H Hx) as E.
  destruct (split_coins_unfold _ _ _ _ _ H) as (x1 & w3 & _ & _ & Hto & Hval & Hx1 & Hk & _).
  rewrite Hx in Hx1; inversion Hx1; subst x1; clear Hx1.
  destruct (se_sender _ _ _ _ _ _ E) as (x' & Hx' & (Hk' & Hdv & Hdf & Hst & Hen) & Hov).
  destruct (se_amounts _ _ _ _ _ _ E d) as [Hc0 Hcl].
  eexists; eexists. split; [exact Hx'|]. split; [apply (se_rcpt _ _ _ _ _ _ E)|].
  unfold acct_vesting. rewrite Hk', Hk. cbn [a_kind Z.eqb Pos.eqb a_start a_end a_ov]. rewrite Hst, Hen, Hov.
  rewrite (camt_coins_amt c (-1) d Hval). split.
  - rewrite (vesting_amt_before (Z.max _ _)) by lia.
    destruct (0 <? coins_amt d c) eqn:Epos; [|lia].
    specialize (Hcl ltac:(lia)). unfold acct_locked, locked_amt in Hcl. rewrite Hk in Hcl. cbn [Z.eqb Pos.eqb] in Hcl. cbv zeta in Hcl.
    destruct (Hnn d) as [Hn1 Hn2].
    pose proof (vesting_amt_range (a_start x) (a_end x) (unix (w_now w)) _ Hn1) as Hr.
    destruct (unlock_ov_exact (a_start x) (a_end x) (unix (w_now w)) (camt d (a_ov x)) (coins_amt d c) Hn1 ltac:(lia)) as [-> _].
    lia.
  - intros t H1 H2 H3. rewrite !vesting_amt_after by lia. lia.
Qed.

(* the pre-fix arithmetic (Dec.Quo, banker's rounding of U*OV/V) does NOT have this property:
   kept as a regression witness of the repaired defect F1 *)
Definition unlock_ov_quo (start end_ now_s ov u : Z) : Z :=
  let v := vesting_amt start end_ now_s ov in
  let diff := dec_trunc_int (dec_quo (dec_mul (dec_of_int u) (dec_of_int ov)) (dec_of_int v)) in
  let ov1 := ov - diff in
  if v - vesting_amt start end_ now_s ov1 <? u then ov1 - 1 else ov1.

Theorem split_exact_refuted_with_Quo :
  exists start end_ now_s ov u, 0 <= ov /\ 1 <= u <= vesting_amt start end_ now_s ov /\
    vesting_amt start end_ now_s (unlock_ov_quo start end_ now_s ov u) <> vesting_amt start end_ now_s ov - u.
Proof.
  exists 0, 2000, 1000, 8923921544330409985, 1. vm_compute. repeat split; intros; discriminate.
Qed.

(* ---------------------------------------------------------------- C09 helpers ------------- *)
Theorem existing_account_history ops : forall w a acc,
  Forall (fun o => forall x b amt, o <> ODelegate x b amt) ops ->
  aget a (w_acc w) = Some acc ->
  exists acc', aget a (w_acc (run w ops)) = Some acc' /\
    a_kind acc' = a_kind acc /\ a_start acc' = a_start acc /\ a_end acc' = a_end acc /\
    a_dv acc' = a_dv acc /\ a_df acc' = a_df acc.
Proof.
  induction ops as [|o ops IH]; intros w a acc Hf Ha.
  - exists acc. simpl. repeat split; first [assumption|reflexivity].
  - inversion Hf as [|o' ops' Ho Hops]; subst.
    destruct (existing_account_unchanged w o a acc Ho Ha) as (acc1 & H1 & Hrel).
    destruct (IH (fst (step w o)) a acc1 Hops H1) as (acc' & H2 & Hk & Hs & He & Hdv & Hdf).
    exists acc'. split; [exact H2|].
    destruct Hrel as [->|(to & c & _ & (Hk1 & Hdv1 & Hdf1 & Hs1 & He1))]; [repeat split; assumption|].
    repeat split; congruence.
Qed.

Theorem split_changes_only_requested_ov w from to c w' x :
  split_vesting_coins w from to c = Some w' -> aget from (w_acc w) = Some x ->
  exists x', aget from (w_acc w') = Some x' /\ same_but_ov x x' /\
    forall d, camt d (a_ov x') = camt d (a_ov x) \/
              (0 < coins_amt d c /\ camt d (a_ov x') = unlock_ov (a_start x) (a_end x) (unix (w_now w)) (camt d (a_ov x)) (coins_amt d c)).
Proof.
  intros H Hx. pose proof (split_coins_effect _ _ _ _ _ _ H Hx) as E.
  destruct (se_sender _ _ _ _ _ _ E) as (x' & Hx' & Hsame & Hov).
  exists x'. split; [assumption|]. split; [assumption|]. intros d. rewrite Hov.
  destruct (0 <? coins_amt d c) eqn:Epos; [right; split; [lia|reflexivity]|left; reflexivity].
Qed.

(* the original vesting never grows *)
Theorem split_reduces_ov w from to c w' x :
  split_vesting_coins w from to c = Some w' -> aget from (w_acc w) = Some x ->
  (forall d, 0 <= camt d (a_ov x) /\ 0 <= camt d (a_dv x)) ->
  exists x', aget from (w_acc w') = Some x' /\
    forall d, 0 <= camt d (a_ov x') <= camt d (a_ov x) - coins_amt d c.
Proof.
  intros H Hx Hnn. pose proof (split_coins_effect _ _ _ _ _ _ H Hx) as E.
  destruct (split_coins_unfold _ _ _ _ _ H) as (x1 & w3 & _ & _ & Hto & Hval & Hx1 & Hk & _).
  rewrite Hx in Hx1; inversion Hx1; subst x1; clear Hx1.
  destruct (se_sender _ _ _ _ _ _ E) as (x' & Hx' & Hsame & Hov).
  exists x'. split; [assumption|]. intros d. rewrite Hov.
  destruct (se_amounts _ _ _ _ _ _ E d) as [Hc0 Hcl]. destruct (Hnn d) as [Hn1 Hn2].
  destruct (0 <? coins_amt d c) eqn:Epos; [|lia].
  specialize (Hcl ltac:(lia)). unfold acct_locked, locked_amt in Hcl. rewrite Hk in Hcl. cbn [Z.eqb Pos.eqb] in Hcl. cbv zeta in Hcl.
  pose proof (vesting_amt_range (a_start x) (a_end x) (unix (w_now w)) _ Hn1) as Hr.
  destruct (unlock_ov_exact (a_start x) (a_end x) (unix (w_now w)) (camt d (a_ov x)) (coins_amt d c) Hn1 ltac:(lia)) as [_ Hb].
  exact Hb.
Qed.

(* ---------------------------------------------------------------- move -------------------- *)
Lemma coins_amt_app d a b : coins_amt d (a ++ b) = coins_amt d a + coins_amt d b.
Proof. unfold coins_amt. rewrite map_app, zsum_app. reflexivity. Qed.

Lemma coins_amt_locked_coins (f : Z -> Z) ds d : NoDup ds ->
  coins_amt d (flat_map (fun d' => one_coin d' (f d')) ds) = if existsb (Z.eqb d) ds then f d else 0.
Proof.
  intros Hnd. induction Hnd as [|d0 ds Hni Hnd IH]; [reflexivity|].
  cbn [flat_map existsb]. rewrite coins_amt_app, IH, coins_amt_one.
  destruct (d =? d0) eqn:E.
  - assert (d = d0) by lia. subst d0. rewrite Z.eqb_refl. cbn [orb].
    assert (Hex : existsb (Z.eqb d) ds = false).
    { destruct (existsb (Z.eqb d) ds) eqn:Ex; [|reflexivity]. apply existsb_exists in Ex.
      destruct Ex as (y & Hy & Hyd). assert (d = y) by lia. subst y. contradiction. }
    rewrite Hex. lia.
  - rewrite Z.eqb_sym, E. cbn [orb]. lia.
Qed.

Theorem move_leaves_zero_locked w from to ds w' x :
  move_available w from to ds = Some w' -> aget from (w_acc w) = Some x ->
  (forall d, 0 <= camt d (a_ov x) /\ 0 <= camt d (a_dv x)) ->
  NoDup ds -> forall d, In d ds -> locked w' from d = 0.
Proof.
  unfold move_available. destruct (from <? 0); [discriminate|]. destruct (to <? 0); [discriminate|].
  intros H Hx Hnn Hnd d Hin.
  destruct (split_exact _ _ _ _ _ _ H Hx Hnn d) as [Hl _]. rewrite Hl.
  unfold locked_coins. rewrite (coins_amt_locked_coins (fun d' => locked w from d') ds d Hnd).
  assert (Hex : existsb (Z.eqb d) ds = true) by (apply existsb_exists; exists d; split; [assumption|lia]).
  rewrite Hex. lia.
Qed.

(* ---------------------------------------------------------------- success ----------------- *)
Lemma spendable_set_bal_other w a d0 v d : d <> d0 -> spendable (set_bal w a d0 v) a d = spendable w a d.
Proof.
  intros Hne. unfold spendable, locked. rewrite bal_set_bal_other by (intros Hc; inversion Hc; lia). reflexivity.
Qed.

Lemma sub_unlocked_succeeds c : forall lo w a, coins_valid_from lo c = true ->
  (forall d, 0 < coins_amt d c -> coins_amt d c <= spendable w a d) ->
  exists w', sub_unlocked w a c = Some w'.
Proof.
  induction c as [|[d0 u] t IH]; intros lo w a Hv Hs; [eexists; reflexivity|].
  simpl in Hv. apply andb_true_iff in Hv. destruct Hv as [H1 H2]. apply andb_true_iff in H1. destruct H1 as [Hlo Hu].
  cbn [sub_unlocked].
  assert (Hd0 : coins_amt d0 ((d0, u) :: t) = u).
  { rewrite coins_amt_cons, Z.eqb_refl. rewrite (coins_valid_from_above t d0 d0 H2) by lia. lia. }
  pose proof (Hs d0 ltac:(lia)) as Hs0. rewrite Hd0 in Hs0.
  destruct (spendable w a d0 <? u) eqn:E; [lia|].
  apply (IH d0 _ a H2). intros d Hd.
  assert (d <> d0). { intros ->. rewrite (coins_valid_from_above t d0 d0 H2) in Hd by lia. lia. }
  rewrite spendable_set_bal_other by assumption.
  specialize (Hs d). rewrite coins_amt_cons in Hs. destruct (d0 =? d) eqn:Ed; [lia|]. apply Hs. lia.
Qed.

Lemma all_lte_locked_intro x now_s c : forall lo, coins_valid_from lo c = true ->
  (forall d, 0 < coins_amt d c -> coins_amt d c <= acct_locked x now_s d) -> all_lte_locked x now_s c = true.
Proof.
  induction c as [|[d0 u] t IH]; intros lo Hv H; [reflexivity|].
  simpl in Hv. apply andb_true_iff in Hv. destruct Hv as [H1 H2]. apply andb_true_iff in H1. destruct H1 as [Hlo Hu].
  unfold all_lte_locked. cbn [forallb fst snd]. apply andb_true_iff. split.
  - specialize (H d0). rewrite coins_amt_cons, Z.eqb_refl in H. rewrite (coins_valid_from_above t d0 d0 H2) in H by lia. lia.
  - apply (IH d0 H2). intros d Hd. specialize (H d). rewrite coins_amt_cons in H.
    destruct (d0 =? d) eqn:E.
    + assert (d0 = d) by lia. subst. rewrite (coins_valid_from_above t d d H2) in Hd by lia. lia.
    + apply H. lia.
Qed.

Theorem split_succeeds w from to c x :
  aget from (w_acc w) = Some x -> a_kind x = 2 -> aget to (w_acc w) = None -> blocked w to = false ->
  c <> [] -> coins_valid c = true ->
  (forall d, 0 <= camt d (a_ov x) /\ 0 <= camt d (a_dv x)) ->
  (forall d, 0 < coins_amt d c -> coins_amt d c <= locked w from d /\ locked w from d <= bal w from d) ->
  exists w', split_vesting_coins w from to c = Some w'.
Proof.
  intros Hx Hk Hto Hbl Hne Hval Hnn Hamt.
  assert (Hft : from <> to) by congruence.
  assert (Hlte : all_lte_locked x (unix (w_now w)) c = true).
  { apply (all_lte_locked_intro x _ c (-1) Hval). intros d Hd. destruct (Hamt d Hd) as [H1 _].
    unfold locked in H1. rewrite Hx in H1. exact H1. }
  unfold split_vesting_coins. destruct c as [|c0 ct]; [contradiction|]. set (c := c0 :: ct) in *.
  rewrite Hbl, Hto, Hval, Hx, Hk, Hlte. cbn [negb Z.eqb Pos.eqb].
  set (x' := {| a_kind := 2; a_ov := unlock_all (a_start x) (a_end x) (unix (w_now w)) (a_ov x) c;
                a_dv := a_dv x; a_df := a_df x; a_start := a_start x; a_end := a_end x |}).
  set (w2 := new_cva (set_acc w from x') to c (Z.max (unix (w_now w)) (a_start x)) (a_end x)).
  assert (Hsend : exists w3, send_coins w2 from to c = Some w3).
  { unfold send_coins. rewrite Hval. cbn [negb].
    destruct (sub_unlocked_succeeds c (-1) w2 from Hval) as (w1 & Hw1); [|rewrite Hw1; eexists; reflexivity].
    intros d Hd. destruct (Hamt d Hd) as [H1 H2].
    unfold spendable, locked. unfold w2, new_cva, set_acc, bal; cbn [w_acc w_bal w_now].
    rewrite aget_aset_other by assumption. rewrite aget_aset_same.
    unfold acct_locked, x'; cbn [a_kind a_start a_end a_ov a_dv Z.eqb Pos.eqb].
    rewrite (unlock_all_camt _ _ _ c (-1) _ d Hval).
    assert (Hpos : (0 <? coins_amt d c) = true) by lia. rewrite Hpos.
    destruct (Hnn d) as [Hn1 Hn2].
    unfold locked in H1, H2. rewrite Hx in H1, H2. unfold acct_locked in H1, H2. rewrite Hk in H1, H2. cbn [Z.eqb Pos.eqb] in H1, H2.
    rewrite locked_after_unlock by (try assumption; lia).
    unfold bal in H2. lia. }
  destruct Hsend as (w3 & Hw3). fold x' w2. rewrite Hw3.
  destruct (aget from (w_traces w3)); eexists; reflexivity.
Qed.
