(* Drift.v — C04: the cumulative effect of truncating a share to 18 digits in every distribution step.
   Over any number of steps with any non-negative inflows the amounts credited to a share's destination
   add up to the exact fraction of the total inflow minus less than one 10^-18 unit per step — never
   more than the exact fraction, and never a whole unit short per step. *)
From C4E Require Import Base Minter Distributor DistrCoins DistrProofs.
From Coq Require Import Lia ZifyBool.
Open Scope Z_scope.

Fixpoint credited_sum (share : Z) (inflows : list Z) : Z :=
  match inflows with [] => 0 | i :: t => dec_mul_trunc i share + credited_sum share t end.

Lemma step_drift i share : 0 <= i -> 0 <= share -> 0 <= i * share - P * dec_mul_trunc i share < P.
Proof.
  intros Hi Hs. unfold dec_mul_trunc. pose proof P_pos as HP. rewrite chop_trunc_nonneg by nia.
  pose proof (Z.mul_div_le (i * share) P HP). pose proof (Z.mul_succ_div_gt (i * share) P HP). lia.
Qed.

Theorem cumulative_drift share inflows :
  0 <= share -> Forall (fun i => 0 <= i) inflows ->
  0 <= zsum inflows * share - P * credited_sum share inflows < P * Z.of_nat (length inflows) \/ inflows = [].
Proof.
  intros Hs Hf. destruct inflows as [|i0 t0]; [right; reflexivity|]. left.
  assert (H : forall l, Forall (fun i => 0 <= i) l -> 0 <= zsum l * share - P * credited_sum share l <= P * Z.of_nat (length l)
              /\ (l <> [] -> zsum l * share - P * credited_sum share l < P * Z.of_nat (length l))).
  { induction l as [|i t IH]; intros Hl; cbn [zsum credited_sum length]; [split; [lia | congruence]|].
    inversion Hl as [|? ? Hi Ht]; subst. destruct (IH Ht) as [IH1 _]. pose proof (step_drift i share Hi Hs). split; [lia|]. intros _. lia. }
  destruct (H (i0 :: t0) Hf) as [A B]. split; [lia | apply B; discriminate].
Qed.
