(* The minter on a node whose bank refuses calls (C02: "nothing is lost or emitted twice" when a block fails).
   cfeminter.BeginBlocker panics on every error Keeper.Mint reports, the errors of the bank among them; a block whose
   begin-blocker panics is never committed: the node stops, and whatever it processes next starts from the state the last
   committed block left. *)
From C4E Require Import Base Minter MinterProofs MinterWalk.
Open Scope Z_scope.

(* a block is a time and whether the bank refuses the minter's calls during it *)
Definition nblock := (Z * bool)%type.

(* one block as the chain sees it afterwards: a refused call stops the block and leaves the committed state where it was *)
Definition node_block (p : mparams) (st : mstate) (b : nblock) : outcome (Z * mstate) :=
  if snd b then Ok (0, st)
  else match mint p st (fst b) with Ok (a, st', _) => Ok (a, st') | Err => Err | Panic => Panic end.

Fixpoint run_node (p : mparams) (st : mstate) (bs : list nblock) : outcome (Z * mstate) :=
  match bs with
  | [] => Ok (0, st)
  | b :: rest =>
      match node_block p st b with
      | Ok (a, st') => match run_node p st' rest with
                       | Ok (c, st'') => Ok (a + c, st'') | Err => Err | Panic => Panic end
      | Err => Err | Panic => Panic
      end
  end.

(* the times of the blocks that were committed after doing something *)
Fixpoint committed (bs : list nblock) : list Z :=
  match bs with [] => [] | (t, true) :: r => committed r | (t, false) :: r => t :: committed r end.

(* why [Ok (0, st)] is right for a refused block whether or not the refusal is noticed: a block in which Mint returns
   without reaching the bank (before the schedule's start, block time not after the last mint, amount due below what was
   minted) changed nothing anyway; every block that reaches the bank moves the last-mint time to the block's time *)
Lemma mint_rec_reaches_bank_or_changes_nothing fuel : forall p st now a st' h,
  mint_rec fuel p st now = Ok (a, st', h) -> (a = 0 /\ st' = st /\ h = []) \/ s_last st' = now.
Proof.
  induction fuel as [|f IH]; intros p st now a st' h H; [discriminate|].
  cbn [mint_rec] in H.
  destruct (find_cur (mp_minters p) (s_seq st) None) as [cur|]; [|discriminate].
  destruct (period_start p (s_seq st)) as [start| |]; try discriminate.
  destruct (amount_to_mint cur start now) as [x| |]; try discriminate.
  cbv zeta in H. destruct (_ <? 0).
  - inversion H; subst. left. repeat split.
  - destruct (negb (mp_denom_ok p)); [discriminate|].
    destruct (match m_end cur with None => true | Some e => now <? e end).
    + inversion H; subst. right. reflexivity.
    + match type of H with context [mint_rec f p ?S2 now] =>
        destruct (mint_rec f p S2 now) as [[[a2 s2] h2]| |] eqn:E2; try discriminate; set (st2 := S2) in * end.
      inversion H; subst. destruct (IH _ _ _ _ _ _ E2) as [(_ & Hs & _)|Hl]; right; [rewrite Hs; reflexivity|exact Hl].
Qed.

Lemma unnoticed_refusal_changes_nothing p st now a st' h :
  mint p st now = Ok (a, st', h) -> s_last st' <> now -> a = 0 /\ st' = st /\ h = [].
Proof.
  unfold mint. intros H Hn. destruct (now <? mp_start p); [inversion H; subst; repeat split|].
  destruct (now <=? s_last st); [inversion H; subst; repeat split|].
  destruct (mint_rec_reaches_bank_or_changes_nothing _ _ _ _ _ _ _ H) as [Hx|Hx]; [exact Hx|contradiction].
Qed.

(* the committed history is a history of the fault-free machine over the committed block times *)
Lemma run_node_is_run_of_committed p : forall bs st, run_node p st bs = run_blocks p st (committed bs).
Proof.
  induction bs as [|[t r] rest IH]; intros st; [reflexivity|].
  cbn [run_node committed]. unfold node_block. cbn [fst snd]. destruct r.
  - rewrite IH. destruct (run_blocks p st (committed rest)) as [[c s]| |]; [|reflexivity|reflexivity].
    replace (0 + c) with c by lia. reflexivity.
  - cbn [run_blocks]. destruct (mint p st t) as [[[a s1] h]| |]; [|reflexivity|reflexivity]. rewrite IH. reflexivity.
Qed.

Lemma increasing_weaken ts : forall lo lo', lo' <= lo -> increasing lo ts -> increasing lo' ts.
Proof. destruct ts as [|t r]; intros lo lo' H Hi; [exact I|]. destruct Hi as [H1 H2]. split; [lia|exact H2]. Qed.

Lemma committed_increasing : forall bs lo, increasing lo (map fst bs) -> increasing lo (committed bs).
Proof.
  induction bs as [|[t r] rest IH]; intros lo H; [exact I|]. cbn [map fst increasing] in H. destruct H as [H1 H2].
  cbn [committed]. destruct r.
  - apply (increasing_weaken _ t lo); [lia|apply IH; exact H2].
  - split; [exact H1|apply IH; exact H2].
Qed.

Lemma committed_bounded (Q : Z -> Prop) : forall bs, Forall Q (map fst bs) -> Forall Q (committed bs).
Proof.
  induction bs as [|[t r] rest IH]; intros H; [constructor|]. cbn [map fst] in H. inversion H; subst.
  cbn [committed]. destruct r; [apply IH; assumption|constructor; [assumption|apply IH; assumption]].
Qed.

(* when the last block is not refused, the last committed time is the last block time *)
Lemma committed_last : forall bs d t, last bs d = (t, false) -> bs <> [] -> committed bs <> [] /\ forall d', last (committed bs) d' = t.
Proof.
  induction bs as [|[t0 r0] rest IH]; intros d t Hl Hne; [contradiction|].
  destruct rest as [|b2 rest'].
  - cbn in Hl. inversion Hl; subst. cbn. split; [discriminate|reflexivity].
  - change (last ((t0, r0) :: b2 :: rest') d) with (last (b2 :: rest') d) in Hl.
    destruct (IH d t Hl ltac:(discriminate)) as [Hc Hlast].
    change (committed ((t0, r0) :: b2 :: rest')) with (if r0 then committed (b2 :: rest') else t0 :: committed (b2 :: rest')).
    destruct r0; [split; [exact Hc|exact Hlast]|].
    split; [discriminate|]. intros d'. rewrite last_cons. apply Hlast.
Qed.

Lemma last_map_fst {A B} (l : list (A * B)) : forall d, last (map fst l) (fst d) = fst (last l d).
Proof.
  induction l as [|x t IH]; intros d; [reflexivity|]. destruct t as [|y t']; [reflexivity|].
  change (last (map fst (x :: y :: t')) (fst d)) with (last (map fst (y :: t')) (fst d)).
  change (last (x :: y :: t') d) with (last (y :: t') d). apply IH.
Qed.

Section NodeHistories.
  Variable p : mparams.
  Hypothesis Hchain : chain 0 (mp_start p) (mp_minters p).
  Hypothesis Hdenom : mp_denom_ok p = true.
  Hypothesis Hstart0 : 0 <= mp_start p.
  Variable g : mstate.
  Hypothesis Hg_seq : match mp_minters p with cur :: _ => s_seq g = m_seq cur | [] => True end.
  Hypothesis Hg_minted : s_minted g = 0.
  Hypothesis Hg_rem : s_rem_prev g = 0.

  (* from genesis, over every strictly increasing sequence of block times and every pattern of refusals that leaves at least
     one block committed: the node never gets into a state it cannot leave, and what the committed history minted is the integer
     part of the schedule's exact cumulative emission at the last committed block time — refused calls neither lose an amount
     nor have it emitted twice *)
  Theorem refused_calls_lose_nothing bs Tl :
    s_last g <= Tl -> increasing Tl (map fst bs) -> Forall (fun t => t <= MAXI64) (map fst bs) -> committed bs <> [] ->
    exists st', run_node p g bs =
      Ok ((if last (committed bs) Tl <? mp_start p then 0
           else dec_trunc_int (exact_sum (mp_start p) (mp_minters p) (last (committed bs) Tl))), st').
  Proof.
    intros H1 H2 H3 H4. rewrite run_node_is_run_of_committed.
    exact (partition_independence p Hchain Hdenom Hstart0 g Hg_seq Hg_minted Hg_rem (committed bs) Tl H1
             (committed_increasing _ _ H2) (committed_bounded _ _ H3) H4).
  Qed.

  (* in particular, when the last block went through, the total is the schedule's value at the last block time: exactly what a
     node whose bank never refused anything minted over the same blocks *)
  Theorem refused_calls_made_up_by_the_next_block bs Tl d T :
    s_last g <= Tl -> increasing Tl (map fst bs) -> Forall (fun t => t <= MAXI64) (map fst bs) ->
    bs <> [] -> last bs d = (T, false) ->
    exists st' st'', run_node p g bs = Ok ((if T <? mp_start p then 0 else dec_trunc_int (exact_sum (mp_start p) (mp_minters p) T)), st') /\
                     run_blocks p g (map fst bs) = Ok ((if T <? mp_start p then 0 else dec_trunc_int (exact_sum (mp_start p) (mp_minters p) T)), st'').
  Proof.
    intros H1 H2 H3 Hne Hl. destruct (committed_last bs d T Hl Hne) as [Hc Hlast].
    destruct (refused_calls_lose_nothing bs Tl H1 H2 H3 Hc) as (st' & Hr). rewrite (Hlast Tl) in Hr.
    assert (Hm : map fst bs <> []) by (destruct bs; [contradiction|discriminate]).
    destruct (partition_independence p Hchain Hdenom Hstart0 g Hg_seq Hg_minted Hg_rem (map fst bs) Tl H1 H2 H3 Hm) as (st'' & Hr2).
    assert (HT : last (map fst bs) Tl = T).
    { rewrite (last_indep (map fst bs) Tl (fst d) Hm). rewrite last_map_fst. rewrite Hl. reflexivity. }
    rewrite HT in Hr2. exists st', st''. split; assumption.
  Qed.
End NodeHistories.
