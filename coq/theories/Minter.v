(* Minter.v — executable model of x/cfeminter: the emission schedule (no-minting, linear,
   exponential-step periods), the recursive hand-over between periods in Keeper.mint, the state
   history, CalculateInflation / GetCurrentInflation, parameter validation and UpdateParams.
   Transcribed from x/cfeminter/keeper/{mint,keeper,msg_server_update_params}.go and
   x/cfeminter/types/{minter,genesis}.go.  Definitions only. *)
From C4E Require Export Base.
Open Scope Z_scope.

Inductive mconfig :=
| CNone
| CLinear (amount : Z)
| CExp (amount step mult : Z).        (* step: ns; mult: Dec *)

Record minter := { m_seq : Z; m_end : option Z; m_cfg : mconfig }.     (* times: ns since epoch *)
Record mparams := { mp_denom_ok : bool; mp_start : Z; mp_minters : list minter }.
Record mstate := { s_seq : Z; s_minted : Z; s_rem : Z; s_rem_prev : Z; s_last : Z }.

Definition MS : Z := 1000000.
Definition YEAR : Z := 31536000000000000.               (* time.Hour * 24 * 365 in ns *)
Definition unix_milli (t : Z) : Z := t / MS.
Definition MAXI64 : Z := 9223372036854775807.
(* time.Time.Sub saturates at the int64 range of Duration *)
Definition go_sub (a b : Z) : Z := Z.max (- MAXI64 - 1) (Z.min MAXI64 (a - b)).

(* outcomes: a value, an error returned to the caller, or a Go panic *)
Inductive outcome (A : Type) := Ok (a : A) | Err | Panic.
Arguments Ok {A} a. Arguments Err {A}. Arguments Panic {A}.

(* ---------------------------------------------------------------- AmountToMint ------------ *)
Definition linear_amount (A start end_ now : Z) : outcome Z :=
  if end_ <? now then Ok (dec_of_int A)
  else if now <? start then Ok 0
  else
    let passed := unix_milli now - unix_milli start in
    let period := unix_milli end_ - unix_milli start in
    if period =? 0 then Panic                              (* Dec.QuoInt64 by zero *)
    else Ok (dec_quo_int (dec_mul_int (dec_of_int A) passed) period).

(* the first n epoch amounts a_0 .. a_(n-1) summed, and a_n, where a_0 = a, a_(i+1) = Mul(a_i, mult) *)
Fixpoint exp_sum (n : nat) (a mult : Z) : Z * Z :=
  match n with
  | O => (0, a)
  | S k => let '(s, cur) := exp_sum k (dec_mul a mult) mult in (a + s, cur)
  end.

Definition exp_amount (A step mult start : Z) (end_ : option Z) (now : Z) : outcome Z :=
  let now' := match end_ with Some e => if e <? now then e else now | None => now end in
  let passed := go_sub now' start in
  if step =? 0 then Panic
  else
    let n := Z.quot passed step in
    let '(s, cur) := exp_sum (Z.to_nat n) (dec_of_int A) mult in
    let r := go_sub now' (start + n * step) in
    Ok (s + dec_quo_int (dec_mul_int cur r) step).

Definition amount_to_mint (m : minter) (start now : Z) : outcome Z :=
  match m_cfg m with
  | CNone => Ok 0
  | CLinear A => match m_end m with Some e => linear_amount A start e now | None => Panic end   (* *endTime nil *)
  | CExp A step mult => exp_amount A step mult start (m_end m) now
  end.

(* ---------------------------------------------------------------- lookup ------------------ *)
(* getCurrentAndPreviousMinter: the last minter with the id; the largest id below it *)
Fixpoint find_cur (ms : list minter) (id : Z) (acc : option minter) : option minter :=
  match ms with
  | [] => acc
  | m :: t => find_cur t id (if m_seq m =? id then Some m else acc)
  end.

Fixpoint find_prev (ms : list minter) (id : Z) (acc : option minter) : option minter :=
  match ms with
  | [] => acc
  | m :: t =>
      let acc' := match acc with
                  | None => if m_seq m <? id then Some m else None
                  | Some p => if (m_seq m <? id) && (m_seq p <? m_seq m) then Some m else acc
                  end in
      find_prev t id acc'
  end.

Definition period_start (p : mparams) (id : Z) : outcome Z :=
  match find_prev (mp_minters p) id None with
  | None => Ok (mp_start p)
  | Some pm => match m_end pm with Some e => Ok e | None => Panic end
  end.

(* ---------------------------------------------------------------- Keeper.mint ------------- *)
(* result: amount minted, new state, state-history entries written (oldest first) *)
Fixpoint mint_rec (fuel : nat) (p : mparams) (st : mstate) (now : Z) : outcome (Z * mstate * list mstate) :=
  match fuel with
  | O => Err                                   (* never reached: see MinterProofs.fuel_suffices *)
  | S f =>
    match find_cur (mp_minters p) (s_seq st) None with
    | None => Err
    | Some cur =>
      match period_start p (s_seq st) with
      | Panic => Panic | Err => Err
      | Ok start =>
        match amount_to_mint cur start now with
        | Panic => Panic | Err => Err
        | Ok a =>
          let expected := a + s_rem_prev st in
          let amount := dec_trunc_int expected - s_minted st in
          if amount <? 0 then Ok (0, st, [])
          else if negb (mp_denom_ok p) then Panic           (* sdk.NewCoin with an invalid denom *)
          else
            let remainder := expected - dec_trunc_dec expected in
            let st1 := {| s_seq := s_seq st; s_minted := s_minted st + amount; s_rem := remainder;
                          s_rem_prev := s_rem_prev st; s_last := now |} in
            let continue_ := match m_end cur with None => true | Some e => now <? e end in
            if continue_ then Ok (amount, st1, [])
            else
              let st2 := {| s_seq := s_seq st + 1; s_minted := 0; s_rem := 0; s_rem_prev := remainder; s_last := now |} in
              match mint_rec f p st2 now with
              | Ok (a2, st', h) => Ok (amount + a2, st', st1 :: h)
              | Err => Err | Panic => Panic
              end
        end
      end
    end
  end.

Definition mint_fuel (p : mparams) : nat := S (length (mp_minters p)).

(* Keeper.Mint *)
Definition mint (p : mparams) (st : mstate) (now : Z) : outcome (Z * mstate * list mstate) :=
  if now <? mp_start p then Ok (0, st, [])
  else if now <=? s_last st then Ok (0, st, [])
  else mint_rec (mint_fuel p) p st now.

(* ---------------------------------------------------------------- inflation --------------- *)
Definition calc_inflation (m : minter) (supply start now : Z) : outcome Z :=
  if now <? start then Ok 0
  else match m_cfg m with
  | CNone => Ok 0
  | CLinear A =>
      if supply <=? 0 then Ok 0
      else match m_end m with
      | None => Panic
      | Some e =>
          let dur := go_sub e start in
          if dur =? 0 then Panic
          else Ok (dec_quo_int (dec_quo_int (dec_mul_int (dec_of_int A) YEAR) dur) supply)
      end
  | CExp A step mult =>
      if supply <=? 0 then Ok 0
      else if match m_end m with Some e => e <=? now | None => false end then Ok 0
      else if step =? 0 then Panic
      else
        let passed := go_sub now start in
        let n := Z.quot passed step in
        let '(_, cur) := exp_sum (Z.to_nat n) (dec_of_int A) mult in
        Ok (dec_quo_int (dec_quo_int (dec_mul_int cur YEAR) step) supply)
  end.

Definition current_inflation (p : mparams) (st : mstate) (supply now : Z) : outcome Z :=
  match find_cur (mp_minters p) (s_seq st) None with
  | None => Err
  | Some cur => match period_start p (s_seq st) with
                | Ok start => calc_inflation cur supply start now
                | Err => Err | Panic => Panic
                end
  end.

(* ---------------------------------------------------------------- validation -------------- *)
Definition cfg_valid (m : minter) : bool :=
  match m_cfg m with
  | CNone => true
  | CLinear A => (0 <=? A) && match m_end m with Some _ => true | None => false end
  | CExp A step mult => (0 <? A) && (0 <=? mult) && (0 <? step)
  end.

(* ValidateParamsMinters on a list already sorted by sequence id (sort.Sort is applied by the code
   itself; the harness passes the sorted list and checks the implementation sorts identically) *)
Fixpoint minters_valid_from (prev_id : Z) (prev_end : Z) (ms : list minter) : bool :=
  match ms with
  | [] => false
  | [m] => (if prev_id =? 0 then 0 <? m_seq m else m_seq m =? prev_id + 1)
           && match m_end m with None => true | Some _ => false end && cfg_valid m
  | m :: t => (if prev_id =? 0 then 0 <? m_seq m else m_seq m =? prev_id + 1)
              && match m_end m with Some e => (prev_end <? e) && minters_valid_from (m_seq m) e t | None => false end
              && cfg_valid m
  end.

Definition params_valid (p : mparams) : bool := minters_valid_from 0 (mp_start p) (mp_minters p).

Definition contains_minter (p : mparams) (id : Z) : bool := existsb (fun m => m_seq m =? id) (mp_minters p).

(* Keeper.UpdateParams (authority already checked by the caller): None = rejected *)
Definition update_params (st : mstate) (newp : mparams) (sorted_valid : bool) : bool :=
  contains_minter newp (s_seq st) && sorted_valid.

(* ---------------------------------------------------------------- world / blocks ---------- *)
Record mworld := { mw_params : mparams; mw_state : mstate; mw_hist : list (Z * mstate); mw_supply : Z }.

Fixpoint hist_set (h : list (Z * mstate)) (s : mstate) : list (Z * mstate) :=
  match h with
  | [] => [(s_seq s, s)]
  | (k, v) :: t => if k =? s_seq s then (k, s) :: t else (k, v) :: hist_set t s
  end.

(* cfeminter.BeginBlocker: Ok (minted amount, world); Err from Mint makes BeginBlocker panic *)
Definition begin_block (w : mworld) (now : Z) : outcome (Z * mworld) :=
  match mint (mw_params w) (mw_state w) now with
  | Ok (a, st, h) => Ok (a, {| mw_params := mw_params w; mw_state := st;
                               mw_hist := fold_left hist_set h (mw_hist w); mw_supply := mw_supply w + a |})
  | Err => Panic
  | Panic => Panic
  end.

(* observation after a block: [result class; minted; seq; minted-in-period; remainder; remainder-from-previous;
   last mint time; supply; inflation class; inflation; #history; (seq, minted)* ] *)
Definition out_class {A} (o : outcome A) : Z := match o with Ok _ => 1 | Err => 0 | Panic => -1 end.

Definition obs_mworld (w : mworld) (now : Z) : list Z :=
  let st := mw_state w in
  let infl := current_inflation (mw_params w) st (mw_supply w) now in
  [s_seq st; s_minted st; s_rem st; s_rem_prev st; s_last st; mw_supply w;
   out_class infl; match infl with Ok i => i | _ => 0 end; Z.of_nat (length (mw_hist w))]
  ++ flat_map (fun e => [fst e; s_minted (snd e)]) (mw_hist w).

Fixpoint check_blocks (w : mworld) (blocks : list (Z * list Z)) (i : Z) : option (Z * list Z) :=
  match blocks with
  | [] => None
  | (now, expected) :: t =>
      match begin_block w now with
      | Ok (a, w') =>
          let got := 1 :: a :: obs_mworld w' now in
          if zlist_eqb got expected then check_blocks w' t (i + 1) else Some (i, got)
      | _ => if zlist_eqb [-1] expected then None else Some (i, [-1])
      end
  end.

Record mcase := { mc_id : Z; mc_world : mworld; mc_valid : bool; mc_blocks : list (Z * list Z) }.

Definition check_mcase (c : mcase) : option (Z * Z * list Z) :=
  if negb (Bool.eqb (params_valid (mw_params (mc_world c))) (mc_valid c))
  then Some (mc_id c, -2, [b2z (params_valid (mw_params (mc_world c)))])
  else match check_blocks (mc_world c) (mc_blocks c) 0 with
       | None => None
       | Some (i, got) => Some (mc_id c, i, got)
       end.

Definition mismatches (cs : list mcase) : list (Z * Z * list Z) :=
  flat_map (fun c => match check_mcase c with None => [] | Some m => [m] end) cs.

(* ---------------------------------------------------------------- application mode -------- *)
(* the minter inside whole-application histories (supply also changes by burns there, so only the
   minter's own observables are compared): [1; minted; seq; minted-in-period; remainder; carried; last] *)
Fixpoint check_ablocks (p : mparams) (st : mstate) (blocks : list (Z * list Z)) (i : Z) : option (Z * list Z) :=
  match blocks with
  | [] => None
  | (now, expected) :: t =>
      match mint p st now with
      | Ok (a, st', _) =>
          let got := [1; a; s_seq st'; s_minted st'; s_rem st'; s_rem_prev st'; s_last st'] in
          if zlist_eqb got expected then check_ablocks p st' t (i + 1) else Some (i, got)
      | _ => if zlist_eqb [-1] expected then None else Some (i, [-1])
      end
  end.

Record acase := { ac_id : Z; ac_params : mparams; ac_state : mstate; ac_blocks : list (Z * list Z) }.

Definition amismatches (cs : list acase) : list (Z * Z * list Z) :=
  flat_map (fun c => match check_ablocks (ac_params c) (ac_state c) (ac_blocks c) 0 with
                     | None => [] | Some (i, got) => [(ac_id c, i, got)] end) cs.
