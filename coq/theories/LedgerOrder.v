(* LedgerOrder.v — C04 "the outcome does not depend on the order in which sources are listed": the credited-amounts machine
   gives the same result when the non-MAIN sources of sub-distributors are listed in another order (MAIN, when a source, stays
   first: not K1); through the refinement of LedgerProofs.v the same holds for what the real distributor credits. *)
From C4E Require Import Base Minter Distributor DistrCoins DistrProofs SupplyProofs Books Credited DistrNz Ledger LedgerProofs.
From Coq Require Import Lia ZifyBool Permutation.
Open Scope Z_scope.

Definition aeq (s s' : aled) : Prop := (forall k, aL s k = aL s' k) /\ aB s = aB s' /\ aU s = aU s'.

Lemma aeq_refl s : aeq s s. Proof. repeat split. Qed.
Lemma aeq_sym s s' : aeq s s' -> aeq s' s. Proof. intros (A & B & C). repeat split; auto. Qed.
Lemma aeq_trans a b c : aeq a b -> aeq b c -> aeq a c.
Proof. intros (A & B & C) (A' & B' & C'). split; [intros k; rewrite A; apply A'|]. split; congruence. Qed.

Lemma a_take_aeq s st st' : aeq st st' -> fst (a_take s st) = fst (a_take s st') /\ aeq (snd (a_take s st)) (snd (a_take s st')).
Proof.
  intros (A & B & C). unfold a_take. destruct (da_type s =? T_MAIN); cbn [fst snd].
  - split; [exact C|]. repeat split; auto.
  - split; [apply A|]. split; [|split; assumption]. intros k. cbn [aL]. unfold a_set. destruct (k =? da_key s); [reflexivity|apply A].
Qed.

Lemma a_take_all_aeq srcs : forall st st' acc, aeq st st' ->
  fst (a_take_all srcs st acc) = fst (a_take_all srcs st' acc) /\ aeq (snd (a_take_all srcs st acc)) (snd (a_take_all srcs st' acc)).
Proof.
  induction srcs as [|s t IH]; intros st st' acc H; cbn [a_take_all]; [split; [reflexivity|exact H]|].
  destruct (a_take_aeq s st st' H) as [H1 H2]. destruct (a_take s st) as [c s1]. destruct (a_take s st') as [c' s1']. cbn [fst snd] in *. subst c'.
  apply IH. exact H2.
Qed.

Lemma a_take_all_acc srcs : forall st acc, fst (a_take_all srcs st acc) = acc + fst (a_take_all srcs st 0) /\ snd (a_take_all srcs st acc) = snd (a_take_all srcs st 0).
Proof.
  induction srcs as [|s t IH]; intros st acc; cbn [a_take_all fst snd]; [split; [lia|reflexivity]|].
  destruct (a_take s st) as [c s1]. destruct (IH s1 (acc + c)) as [A B]. destruct (IH s1 (0 + c)) as [A' B']. rewrite A, B, A', B'. split; [lia|reflexivity].
Qed.

(* two neighbouring non-MAIN sources in the other order *)
Lemma a_take_swap s1 s2 st : da_type s1 <> T_MAIN -> da_type s2 <> T_MAIN ->
  let r := a_take_all [s1; s2] st 0 in let r' := a_take_all [s2; s1] st 0 in fst r = fst r' /\ aeq (snd r) (snd r').
Proof.
  intros H1 H2. cbn [a_take_all]. unfold a_take. replace (da_type s1 =? T_MAIN) with false by lia. replace (da_type s2 =? T_MAIN) with false by lia.
  cbn [fst snd aL aB aU]. unfold a_set. split.
  - destruct (da_key s2 =? da_key s1) eqn:E.
    + replace (da_key s1 =? da_key s2) with true by lia. replace (da_key s2) with (da_key s1) by lia. lia.
    + replace (da_key s1 =? da_key s2) with false by lia. lia.
  - split; [|split; reflexivity]. intros k. cbn [aL]. destruct (k =? da_key s2), (k =? da_key s1); reflexivity.
Qed.

Lemma a_take_all_app a b st acc : a_take_all (a ++ b) st acc = a_take_all b (snd (a_take_all a st acc)) (fst (a_take_all a st acc)).
Proof.
  revert st acc. induction a as [|s t IH]; intros st acc; cbn [a_take_all app fst snd]; [reflexivity|].
  destruct (a_take s st) as [c s1]. apply IH.
Qed.

Lemma a_take_all_perm srcs srcs' : Permutation srcs srcs' -> Forall (fun s => da_type s <> T_MAIN) srcs -> forall st acc,
  fst (a_take_all srcs st acc) = fst (a_take_all srcs' st acc) /\ aeq (snd (a_take_all srcs st acc)) (snd (a_take_all srcs' st acc)).
Proof.
  induction 1 as [|x l l' Hp IH|x y l|l l' l'' Hp1 IH1 Hp2 IH2]; intros Hn st acc.
  - split; [reflexivity|apply aeq_refl].
  - inversion Hn; subst. cbn [a_take_all]. destruct (a_take x st) as [c s1]. apply IH. assumption.
  - inversion Hn as [|? ? Hy Hn']; subst. inversion Hn' as [|? ? Hx Hl]; subst.
    change (y :: x :: l) with ([y; x] ++ l). change (x :: y :: l) with ([x; y] ++ l). rewrite !a_take_all_app.
    destruct (a_take_all_acc [y; x] st acc) as [A1 B1]. destruct (a_take_all_acc [x; y] st acc) as [A2 B2].
    destruct (a_take_swap y x st Hy Hx) as [S1 S2]. cbv zeta in S1, S2.
    rewrite A1, A2, B1, B2, S1. apply a_take_all_aeq. exact S2.
  - destruct (IH1 Hn st acc) as [A1 B1]. assert (Hn' : Forall (fun s => da_type s <> T_MAIN) l') by (eapply Permutation_Forall; eassumption).
    destruct (IH2 Hn' st acc) as [A2 B2]. split; [congruence|eapply aeq_trans; eassumption].
Qed.

(* the rest of a sub-distributor respects pointwise equality *)
Lemma a_credit_aeq dest c st st' : aeq st st' -> aeq (a_credit dest c st) (a_credit dest c st').
Proof.
  intros (A & B & C). unfold a_credit. destruct (da_type dest =? T_MAIN); (split; [|split]); cbn [aL aB aU]; auto; try lia.
  intros k. unfold a_set. destruct (k =? da_key dest); [rewrite A; reflexivity|apply A].
Qed.

Lemma a_shares_aeq shares inflow : forall st st' dflt, aeq st st' ->
  snd (a_shares shares inflow st dflt) = snd (a_shares shares inflow st' dflt) /\ aeq (fst (a_shares shares inflow st dflt)) (fst (a_shares shares inflow st' dflt)).
Proof.
  induction shares as [|sh t IH]; intros st st' dflt H; cbn [a_shares fst snd]; [split; [reflexivity|exact H]|].
  destruct (da_type (sh_dest sh) =? T_MAIN); [apply IH; exact H|]. apply IH. apply a_credit_aeq. exact H.
Qed.

Lemma a_dist_aeq sd inflow st st' : aeq st st' -> aeq (a_dist sd inflow st) (a_dist sd inflow st').
Proof.
  intros H. unfold a_dist. destruct (a_shares_aeq (sd_shares sd) inflow st st' inflow H) as [A B].
  destruct (a_shares (sd_shares sd) inflow st inflow) as [s2 d1]. destruct (a_shares (sd_shares sd) inflow st' inflow) as [s2' d1']. cbn [fst snd] in *. subst d1'.
  apply a_credit_aeq. destruct B as (B1 & B2 & B3). split; [exact B1|]. split; cbn [aB aU]; lia.
Qed.

(* the same sub-distributor with its non-MAIN sources listed in another order; MAIN, when a source, is the first one in both *)
Definition srcs_reordered (l l' : list dacct) : Prop :=
  (Forall (fun s => da_type s <> T_MAIN) l /\ Permutation l l') \/
  (exists m t t', l = m :: t /\ l' = m :: t' /\ Forall (fun s => da_type s <> T_MAIN) t /\ Permutation t t').
Definition sd_reordered (sd sd' : subdist) : Prop :=
  srcs_reordered (sd_sources sd) (sd_sources sd') /\ sd_shares sd' = sd_shares sd /\ sd_burn sd' = sd_burn sd /\ sd_primary sd' = sd_primary sd.

Lemma a_sub_reordered sd sd' st st' : sd_reordered sd sd' -> aeq st st' -> aeq (a_sub sd st) (a_sub sd' st').
Proof.
  intros (Hs & E1 & E2 & E3) H. rewrite !a_sub_unfold.
  assert (G : fst (a_take_all (sd_sources sd) st 0) = fst (a_take_all (sd_sources sd') st' 0) /\
              aeq (snd (a_take_all (sd_sources sd) st 0)) (snd (a_take_all (sd_sources sd') st' 0))).
  { destruct Hs as [[Hn Hp]|(m & t & t' & -> & -> & Hn & Hp)].
    - destruct (a_take_all_perm _ _ Hp Hn st 0) as [A B]. destruct (a_take_all_aeq (sd_sources sd') st st' 0 H) as [A' B'].
      split; [congruence|eapply aeq_trans; eassumption].
    - cbn [a_take_all]. destruct (a_take_aeq m st st' H) as [A B]. destruct (a_take m st) as [c s1]. destruct (a_take m st') as [c' s1']. cbn [fst snd] in *. subst c'.
      destruct (a_take_all_perm _ _ Hp Hn s1 (0 + c)) as [A1 B1]. destruct (a_take_all_aeq t' s1 s1' (0 + c) B) as [A2 B2].
      split; [congruence|eapply aeq_trans; eassumption]. }
  destruct G as [G1 G2].
  destruct (a_take_all (sd_sources sd) st 0) as [i s1]. destruct (a_take_all (sd_sources sd') st' 0) as [i' s1']. cbn [fst snd] in *. subst i'.
  assert (F : a_dist sd' i s1' = a_dist sd i s1') by (unfold a_dist; rewrite E1, E2, E3; reflexivity).
  rewrite F. apply a_dist_aeq. exact G2.
Qed.

Lemma a_block_reordered subs subs' : Forall2 sd_reordered subs subs' -> forall st st', aeq st st' -> aeq (a_block subs st) (a_block subs' st').
Proof.
  induction 1 as [|sd sd' t t' Hsd _ IH]; intros st st' H; cbn [a_block fold_left]; [exact H|].
  apply IH. apply a_sub_reordered; assumption.
Qed.

Lemma a_inflow_aeq o subs subs' d st st' : Forall2 sd_reordered subs subs' -> aeq st st' -> aeq (a_step subs d st o) (a_step subs' d st' o).
Proof.
  intros Hs H. destruct o as [c|a c|pf]; cbn [a_step].
  - destruct H as (A & B & C). unfold a_inflow_main. repeat split; cbn [aL aB aU]; auto. lia.
  - destruct H as (A & B & C). unfold a_inflow_acct. split; [|split; assumption]. intros k. cbn [aL]. unfold a_set. destruct (k =? da_key a); [rewrite A; reflexivity|apply A].
  - apply a_block_reordered; assumption.
Qed.

Theorem a_run_reordered subs subs' d ops : Forall2 sd_reordered subs subs' -> forall st st', aeq st st' -> aeq (a_run subs d st ops) (a_run subs' d st' ops).
Proof.
  intros Hs. unfold a_run. induction ops as [|o t IH]; intros st st' H; cbn [fold_left]; [exact H|].
  apply IH. apply a_inflow_aeq; assumption.
Qed.

(* through the refinement: two worlds that differ only in the order of the non-MAIN sources, run through the same history
   (whatever payouts fail in either), credit every account, the burn and the unbooked remainder identically *)
Theorem credited_amounts_independent_of_source_order Acct bk (U : acct_universe Acct bk) ops ops' w w' (st : Z -> aled) :
  lwinv Acct bk w -> lwinv Acct bk w' -> Forall2 sd_reordered (dw_subs w) (dw_subs w') ->
  Forall (lop_ok Acct) ops -> Forall (lop_ok Acct) ops' -> Forall2 same_but_faults ops ops' ->
  (forall d, LRep Acct bk d (st d) w) -> (forall d, LRep Acct bk d (st d) w') ->
  exists w1 w2, lrun w ops = Ok w1 /\ lrun w' ops' = Ok w2 /\
    forall d, (forall a, Acct a -> ledA a (dw_states w1) (wbank w1) d = ledA a (dw_states w2) (wbank w2) d) /\
              ledB bk (dw_states w1) (wbank w1) d = ledB bk (dw_states w2) (wbank w2) d /\
              unbooked (dw_states w1) (wbank w1) d = unbooked (dw_states w2) (wbank w2) d.
Proof.
  intros Hw Hw' Hs Hok Hok' Hsame Hrep Hrep'.
  destruct (ledger_refinement Acct bk U ops w st Hw Hok Hrep) as (w1 & E1 & _ & _ & R1).
  destruct (ledger_refinement Acct bk U ops' w' st Hw' Hok' Hrep') as (w2 & E2 & _ & _ & R2).
  exists w1, w2. split; [exact E1|]. split; [exact E2|]. intros d.
  pose proof (R1 d) as R1d. rewrite (a_run_ignores_faults (dw_subs w) d ops ops' Hsame) in R1d.
  destruct (a_run_reordered (dw_subs w) (dw_subs w') d ops' Hs (st d) (st d) (aeq_refl _)) as (A & B & C).
  destruct R1d as (A1 & B1 & C1). destruct (R2 d) as (A2 & B2 & C2).
  split; [intros a Ha; rewrite <- (A1 a Ha), <- (A2 a Ha); apply A|]. split; [rewrite <- B1, <- B2; exact B|lia].
Qed.
