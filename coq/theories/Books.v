(* Books.v — C03 at block and history level: for every configuration in which MAIN, when it is a
   source, is the first source of its sub-distributor (not K1) and no other account is the main
   account under another name (not K2), every distributor BeginBlock — whatever bank calls fail —
   keeps the unbooked part of the main balance non-negative, never panics, and ends with the books
   (sum of all recorded remains) equal to the main account's balance whenever the configuration's
   last MAIN occurrence is a source (which validation enforces). *)
From C4E Require Import Base Minter Distributor DistrCoins DistrProofs SupplyProofs.
From Coq Require Import Lia ZifyBool.
Open Scope Z_scope.

Definition mainbal (b : bank) (d : Z) : Z := dc_amt d (bal_of (bk_bal b) MAINADDR).
Definition unbooked (sts : list dstate) (b : bank) (d : Z) : Z := mainbal b d * P - remsum d sts.

Definition bal_wf (bal : list (Z * dcoins)) : Prop := forall a, dc_wf (bal_of bal a).
Definition bal_nonneg (bal : list (Z * dcoins)) : Prop := forall a d, 0 <= dc_amt d (bal_of bal a).
Definition rem_nonneg (sts : list dstate) : Prop := Forall (fun s => forall d, 0 <= dc_amt d (st_rem s)) sts.

Record inv (sts : list dstate) (b : bank) : Prop := {
  i_wf : states_wf sts;
  i_nn : rem_nonneg sts;
  i_acc : Forall has_acc sts;
  i_bwf : bal_wf (bk_bal b);
  i_bnn : bal_nonneg (bk_bal b);
  i_burned : dc_wf (bk_burned b) }.

(* ---------------------------------------------------------------- small facts ------------- *)
Lemma next_fault_bal b : bk_bal (snd (next_fault b)) = bk_bal b /\ bk_burned (snd (next_fault b)) = bk_burned b.
Proof. unfold next_fault; destruct (bk_faults b); split; reflexivity. Qed.

Lemma bal_wf_aset a v bal : bal_wf bal -> dc_wf v -> bal_wf (aset a v bal).
Proof.
  intros H Hv x. destruct (Z.eq_dec x a) as [->|Hne]; [rewrite bal_of_aset_same; exact Hv | rewrite bal_of_aset_other by exact Hne; apply H].
Qed.
Lemma bal_nonneg_aset a v bal : bal_nonneg bal -> (forall d, 0 <= dc_amt d v) -> bal_nonneg (aset a v bal).
Proof.
  intros H Hv x d. destruct (Z.eq_dec x a) as [->|Hne]; [rewrite bal_of_aset_same; apply Hv | rewrite bal_of_aset_other by exact Hne; apply H].
Qed.

(* a whole balance debited from itself is covered denomination by denomination *)
Lemma partial_debit_all_ok have : forall c, dc_wf have -> (forall d, 0 <= dc_amt d c <= dc_amt d have) -> dc_wf c ->
  snd (partial_debit have c) = true.
Proof.
  intros c; revert have; induction c as [|[d v] t IH]; intros have Hh Hle Hc; [reflexivity|].
  cbn [partial_debit]. pose proof (Hle d) as Hd. cbn [dc_amt] in Hd. rewrite Z.eqb_refl in Hd.
  replace (dc_amt d have <? v) with false by lia.
  destruct Hc as [Hd0 Hs].
  assert (Hsing : dc_wf [(d, - v)]) by (cbn; split; [exact Hd0 | exact I]).
  apply IH.
  - apply dc_add_wf; assumption.
  - intros d'. rewrite dc_add_amt by assumption. cbn [dc_amt]. specialize (Hle d'). cbn [dc_amt] in Hle.
    destruct (d' =? d) eqn:E.
    + assert (d' = d) by lia. subst d'. rewrite (dc_amt_above t d d Hs) by lia. lia.
    + lia.
  - eapply dc_sorted_weaken; [|exact Hs]. lia.
Qed.

Lemma failed_debit_covered b from c :
  dc_wf (bal_of (bk_bal b) from) -> dc_wf c -> (forall d, 0 <= dc_amt d c <= dc_amt d (bal_of (bk_bal b) from)) ->
  failed_debit b from c = b.
Proof.
  intros Hw Hc Hle. apply failed_debit_sufficient. apply partial_debit_all_ok; assumption.
Qed.

(* ---------------------------------------------------------------- bank calls -------------- *)
Lemma transfer_effect b from to c ok b' :
  transfer b from to c = (ok, b') -> from <> to -> bal_wf (bk_bal b) -> dc_wf c ->
  (forall d, 0 <= dc_amt d c <= dc_amt d (bal_of (bk_bal b) from)) ->
  bk_burned b' = bk_burned b /\ bal_wf (bk_bal b') /\
  (forall x, x <> from -> x <> to -> bal_of (bk_bal b') x = bal_of (bk_bal b) x) /\
  (forall d, dc_amt d (bal_of (bk_bal b') from) = dc_amt d (bal_of (bk_bal b) from) - (if ok then dc_amt d c else 0)) /\
  (forall d, dc_amt d (bal_of (bk_bal b') to) = dc_amt d (bal_of (bk_bal b) to) + (if ok then dc_amt d c else 0)).
Proof.
  intros H Hne Hw Hc Hle. unfold transfer in H. destruct (next_fault b) as [f b1] eqn:En.
  pose proof (next_fault_bal b) as [Hb1 Hb2]. rewrite En in Hb1, Hb2. cbn [snd] in Hb1, Hb2.
  destruct f; inversion H; subst; clear H.
  - assert (Hfd : failed_debit b1 from c = b1) by (apply failed_debit_covered; rewrite ?Hb1; [apply Hw | exact Hc | exact Hle]).
    rewrite Hfd, Hb1, Hb2. repeat split; auto; intros; lia.
  - cbn [bk_bal bk_burned]. rewrite Hb1, Hb2.
    assert (Hn : dc_wf (dc_neg c)) by (apply dc_neg_sorted; exact Hc).
    assert (Hf : dc_wf (dc_add (bal_of (bk_bal b) from) (dc_neg c))) by (apply dc_add_wf; [apply Hw | exact Hn]).
    split; [reflexivity|]. split.
    { apply bal_wf_aset; [apply bal_wf_aset; assumption|]. apply dc_add_wf; [|exact Hc].
      rewrite bal_of_aset_other by (intros E; apply Hne; symmetry; exact E). apply Hw. }
    split.
    { intros x Hx1 Hx2. rewrite !bal_of_aset_other by assumption. reflexivity. }
    split.
    { intros d. rewrite bal_of_aset_other by exact Hne. rewrite bal_of_aset_same, dc_add_amt, dc_neg_amt by (try apply Hw; assumption). lia. }
    { intros d. rewrite bal_of_aset_same. rewrite bal_of_aset_other by (intros E; apply Hne; symmetry; exact E).
      rewrite dc_add_amt by (try apply Hw; assumption). reflexivity. }
Qed.

Lemma burn_effect b from c ok b' :
  burn b from c = (ok, b') -> bal_wf (bk_bal b) -> dc_wf (bk_burned b) -> dc_wf c ->
  (forall d, 0 <= dc_amt d c <= dc_amt d (bal_of (bk_bal b) from)) ->
  bal_wf (bk_bal b') /\ dc_wf (bk_burned b') /\
  (forall x, x <> from -> bal_of (bk_bal b') x = bal_of (bk_bal b) x) /\
  (forall d, dc_amt d (bal_of (bk_bal b') from) = dc_amt d (bal_of (bk_bal b) from) - (if ok then dc_amt d c else 0)).
Proof.
  intros H Hw Hbw Hc Hle. unfold burn in H. destruct (next_fault b) as [f b1] eqn:En.
  pose proof (next_fault_bal b) as [Hb1 Hb2]. rewrite En in Hb1, Hb2. cbn [snd] in Hb1, Hb2.
  destruct f; inversion H; subst; clear H.
  - assert (Hfd : failed_debit b1 from c = b1) by (apply failed_debit_covered; rewrite ?Hb1; [apply Hw | exact Hc | exact Hle]).
    rewrite Hfd, Hb1, Hb2. repeat split; auto; intros; lia.
  - cbn [bk_bal bk_burned]. rewrite Hb1, Hb2.
    assert (Hn : dc_wf (dc_neg c)) by (apply dc_neg_sorted; exact Hc).
    split; [apply bal_wf_aset; [assumption | apply dc_add_wf; [apply Hw | exact Hn]]|].
    split; [apply dc_add_wf; assumption|]. split.
    { intros x Hx. rewrite bal_of_aset_other by assumption. reflexivity. }
    { intros d. rewrite bal_of_aset_same, dc_add_amt, dc_neg_amt by (try apply Hw; assumption). lia. }
Qed.

(* ---------------------------------------------------------------- states ------------------ *)
Lemma rem_nonneg_upd sts : forall pos f, rem_nonneg sts ->
  (forall s, (forall d, 0 <= dc_amt d (st_rem s)) -> forall d, 0 <= dc_amt d (st_rem (f s))) -> rem_nonneg (upd_state sts pos f).
Proof.
  unfold rem_nonneg. induction sts as [|s t IH]; intros pos f H Hf; [destruct pos; constructor|].
  inversion H as [|? ? Hs Ht]; subst. destruct pos; cbn [upd_state]; constructor; auto.
Qed.
Lemma nth_nonneg sts pos d : rem_nonneg sts -> 0 <= dc_amt d (st_rem (nth pos sts dflt_state)).
Proof.
  intros H. destruct (Nat.lt_ge_cases pos (length sts)) as [Hlt|Hge].
  - exact (proj1 (Forall_forall _ _) H _ (nth_In _ _ Hlt) d).
  - rewrite nth_overflow by exact Hge. cbn. lia.
Qed.

Lemma prepare_left_books coins src sts :
  states_wf sts -> rem_nonneg sts -> Forall has_acc sts -> dc_wf coins -> (forall d, 0 <= dc_amt d coins) ->
  exists c sts', prepare_left coins src sts = Ok (c, sts') /\
    states_wf sts' /\ rem_nonneg sts' /\ Forall has_acc sts' /\ dc_wf c /\ (forall d, 0 <= dc_amt d c) /\
    forall d, dc_amt d c + remsum d sts' = dc_amt d coins + remsum d sts.
Proof.
  intros Hw Hn Ha Hc Hcn. destruct (find_account_state_ok sts (da_id src) 0 Ha) as [r Hr].
  assert (Hex : exists c sts', prepare_left coins src sts = Ok (c, sts')).
  { unfold prepare_left. rewrite Hr. destruct r as [pos|]; [|eauto].
    destruct (dc_is_zero _); eauto. }
  destruct Hex as (c & sts' & He). exists c, sts'. split; [exact He|].
  destruct (prepare_left_spec _ _ _ _ _ He Hw Hc) as (A & B & C). split; [exact A|].
  unfold prepare_left in He. rewrite Hr in He. destruct r as [pos|].
  - fold dflt_state in He. destruct (dc_is_zero (st_rem (nth pos sts dflt_state))) eqn:Ez; inversion He; subst; clear He.
    + repeat split; auto.
    + pose proof (find_account_state_lt _ _ _ _ Hr) as Hp.
      assert (Hrw : dc_wf (st_rem (nth pos sts dflt_state))) by (apply (proj1 (Forall_forall _ _) Hw); apply nth_In; lia).
      split; [apply rem_nonneg_upd; [exact Hn | intros s _ d; cbn; lia]|].
      split; [apply has_acc_upd; [exact Ha | reflexivity]|]. split; [exact B|]. split; [|exact C].
      intros d. rewrite dc_add_amt by assumption. pose proof (nth_nonneg sts pos d Hn). specialize (Hcn d). lia.
  - inversion He; subst. repeat split; auto.
Qed.

(* ---------------------------------------------------------------- sources ----------------- *)
Lemma inv_bank sts b b' : inv sts b -> bal_wf (bk_bal b') -> bal_nonneg (bk_bal b') -> dc_wf (bk_burned b') -> inv sts b'.
Proof. intros [A B C _ _ _] X Y Z. constructor; assumption. Qed.
Lemma inv_states sts sts' b : inv sts b -> states_wf sts' -> rem_nonneg sts' -> Forall has_acc sts' -> inv sts' b.
Proof. intros [_ _ _ D E F] X Y Z. constructor; assumption. Qed.

(* a source other than MAIN: whatever it contributes (its swept balance, if the sweep succeeds, plus its
   own recorded left-over) raises the unbooked part of the main balance by exactly that amount *)
Lemma prepare_source_other src sts b :
  inv sts b -> da_type src <> T_MAIN -> (da_type src <> T_INTERNAL -> da_addr src <> MAINADDR) ->
  exists c sts' b', prepare_source src sts b = Ok (c, sts', b') /\ inv sts' b' /\ dc_wf c /\ (forall d, 0 <= dc_amt d c) /\
    forall d, unbooked sts' b' d = unbooked sts b d + dc_amt d c.
Proof.
  intros Hi Ht Hal. unfold prepare_source. replace (da_type src =? T_MAIN) with false by lia.
  match goal with |- context [prepare_left (fst ?sw)] => set (swept := sw) end.
  assert (Hs : dc_wf (fst swept) /\ (forall d, 0 <= dc_amt d (fst swept)) /\ inv sts (snd swept) /\
               forall d, mainbal (snd swept) d * P = mainbal b d * P + dc_amt d (fst swept)).
  { subst swept. destruct (da_type src =? T_INTERNAL) eqn:Ei; [cbn [fst snd dc_amt]; split; [exact I|]; split; [intros; lia|]; split; [exact Hi|]; intros; lia|].
    assert (Hne : da_addr src <> MAINADDR) by (apply Hal; lia).
    destruct (dc_is_zero (bal_of (bk_bal b) (da_addr src))); [cbn [fst snd dc_amt]; split; [exact I|]; split; [intros; lia|]; split; [exact Hi|]; intros; lia|].
    destruct (transfer b (da_addr src) MAINADDR (bal_of (bk_bal b) (da_addr src))) as [ok b1] eqn:Et.
    destruct (transfer_effect _ _ _ _ _ _ Et Hne (i_bwf _ _ Hi) (i_bwf _ _ Hi _)) as (T1 & T2 & T3 & T4 & T5).
    { intros d. pose proof (i_bnn _ _ Hi (da_addr src) d). lia. }
    assert (Hb1 : inv sts b1).
    { apply (inv_bank sts b); [exact Hi | exact T2 | | rewrite T1; apply Hi].
      intros a d. destruct (Z.eq_dec a (da_addr src)) as [->|N1].
      - rewrite T4. pose proof (i_bnn _ _ Hi (da_addr src) d). destruct ok; lia.
      - destruct (Z.eq_dec a MAINADDR) as [->|N2].
        + rewrite T5. pose proof (i_bnn _ _ Hi MAINADDR d). pose proof (i_bnn _ _ Hi (da_addr src) d). destruct ok; lia.
        + rewrite T3 by assumption. apply Hi. }
    destruct (dc_of_coins_spec _ (i_bwf _ _ Hi (da_addr src))) as [Hcw Hca].
    destruct ok; cbn [fst snd].
    - split; [exact Hcw|]. split; [intros d; rewrite Hca; pose proof (i_bnn _ _ Hi (da_addr src) d); pose proof P_pos; nia|].
      split; [exact Hb1|]. intros d. unfold mainbal. rewrite T5, Hca. lia.
    - split; [exact I|]. split; [intros; cbn; lia|]. split; [exact Hb1|]. intros d. unfold mainbal. rewrite T5. cbn. lia. }
  destruct Hs as (Hsw & Hsn & Hsi & Hsm).
  destruct (prepare_left_books (fst swept) src sts (i_wf _ _ Hi) (i_nn _ _ Hi) (i_acc _ _ Hi) Hsw Hsn)
    as (c & sts' & He & A & B & C & D & E & F).
  exists c, sts', (snd swept). rewrite He. split; [reflexivity|].
  split; [apply (inv_states sts); assumption|]. split; [exact D|]. split; [exact E|].
  intros d. unfold unbooked. rewrite Hsm. specialize (F d). lia.
Qed.

Lemma remsum_nonneg d sts : rem_nonneg sts -> 0 <= remsum d sts.
Proof.
  unfold remsum, rem_nonneg. induction sts as [|s t IH]; intros H; cbn [map zsum]; [lia|].
  inversion H as [|? ? Hs Ht]; subst. specialize (IH Ht). specialize (Hs d). lia.
Qed.

(* the MAIN source: its inflow is exactly the unbooked part of the main balance *)
Lemma prepare_source_main src sts b :
  inv sts b -> da_type src = T_MAIN -> (forall d, 0 <= unbooked sts b d) ->
  exists c, prepare_source src sts b = Ok (c, sts, b) /\ dc_wf c /\ forall d, dc_amt d c = unbooked sts b d.
Proof.
  intros Hi Ht Hu.
  assert (Hex : exists c, prepare_source src sts b = Ok (c, sts, b)).
  { unfold prepare_source. rewrite Ht. cbn [Z.eqb T_MAIN].
    destruct (dc_is_zero (dc_of_coins (bal_of (bk_bal b) MAINADDR))); [eauto|].
    destruct (dc_of_coins_spec _ (i_bwf _ _ Hi MAINADDR)) as [Hcw Hca].
    destruct (dc_sub_ok (dc_of_coins (bal_of (bk_bal b) MAINADDR)) (rem_sum sts) Hcw (rem_sum_wf _ (i_wf _ _ Hi))) as [r Hr].
    { intros d. rewrite Hca, rem_sum_amt by apply Hi. specialize (Hu d). unfold unbooked, mainbal in Hu. lia. }
    rewrite Hr. eauto. }
  destruct Hex as [c Hc]. exists c. split; [exact Hc|].
  destruct (prepare_main_spec _ _ _ _ _ _ Ht Hc (i_wf _ _ Hi) (i_bwf _ _ Hi MAINADDR)) as (_ & _ & Hz & Hnz).
  destruct (dc_is_zero (bal_of (bk_bal b) MAINADDR)) eqn:Ez.
  - rewrite (Hz eq_refl). split; [exact I|]. intros d. cbn [dc_amt].
    specialize (Hu d). unfold unbooked, mainbal in *. destruct (bal_of (bk_bal b) MAINADDR); [|discriminate]. cbn [dc_amt] in *.
    pose proof (remsum_nonneg d sts (i_nn _ _ Hi)). lia.
  - destruct (Hnz eq_refl) as [Hw Ha]. split; [exact Hw|]. intros d. unfold unbooked, mainbal. apply Ha.
Qed.

(* all sources of one sub-distributor; [m]: the unbooked amount already taken as MAIN inflow *)
Definition src_plain (a : dacct) : Prop := da_type a <> T_MAIN /\ (da_type a <> T_INTERNAL -> da_addr a <> MAINADDR).

Lemma prepare_all_others srcs : forall sts b acc,
  inv sts b -> Forall src_plain srcs -> dc_wf acc -> (forall d, 0 <= dc_amt d acc) ->
  exists c sts' b', prepare_all srcs sts b acc = Ok (c, sts', b') /\ inv sts' b' /\ dc_wf c /\ (forall d, dc_amt d acc <= dc_amt d c) /\
    forall d, unbooked sts' b' d = unbooked sts b d + (dc_amt d c - dc_amt d acc).
Proof.
  induction srcs as [|s t IH]; intros sts b acc Hi Hp Ha Han; cbn [prepare_all].
  - exists acc, sts, b. split; [reflexivity|]. split; [exact Hi|]. split; [exact Ha|]. split; intros; lia.
  - inversion Hp as [|? ? [Hs1 Hs2] Ht]; subst.
    destruct (prepare_source_other s sts b Hi Hs1 Hs2) as (c0 & s0 & b0 & E & Hi0 & Hc0 & Hn0 & Hu0). rewrite E.
    set (acc' := if dc_is_zero c0 then acc else dc_add acc c0).
    assert (Hacc' : dc_wf acc' /\ forall d, dc_amt d acc' = dc_amt d acc + dc_amt d c0).
    { subst acc'. destruct (dc_is_zero c0) eqn:Ez.
      - split; [exact Ha|]. intros d. destruct c0; [cbn; lia | discriminate].
      - split; [apply dc_add_wf; assumption|]. intros d. apply dc_add_amt; assumption. }
    destruct Hacc' as [Hw' Ha'].
    destruct (IH s0 b0 acc' Hi0 Ht Hw') as (c & sts' & b' & E' & Hi' & Hc' & Hle' & Hu').
    { intros d. rewrite Ha'. specialize (Han d). specialize (Hn0 d). lia. }
    exists c, sts', b'. split; [exact E'|]. split; [exact Hi'|]. split; [exact Hc'|].
    split; [intros d; specialize (Hle' d); rewrite Ha' in Hle'; specialize (Hn0 d); lia|].
    intros d. rewrite Hu', Hu0, Ha'. lia.
Qed.

(* the sources of a sub-distributor are in order when MAIN, if it is a source at all, is the first one (not K1) *)
Definition sources_in_order (srcs : list dacct) : Prop :=
  match srcs with
  | [] => True
  | s :: t => (da_type s = T_MAIN \/ src_plain s) /\ Forall src_plain t
  end.
Definition main_is_source (srcs : list dacct) : bool := match srcs with s :: _ => da_type s =? T_MAIN | [] => false end.

Lemma prepare_all_books srcs sts b :
  inv sts b -> sources_in_order srcs -> (forall d, 0 <= unbooked sts b d) ->
  exists c sts' b', prepare_all srcs sts b [] = Ok (c, sts', b') /\ inv sts' b' /\ dc_wf c /\ (forall d, 0 <= dc_amt d c) /\
    forall d, unbooked sts' b' d = (if main_is_source srcs then 0 else unbooked sts b d) + dc_amt d c.
Proof.
  intros Hi Ho Hu. destruct srcs as [|s t].
  - exists [], sts, b. cbn [prepare_all main_is_source dc_amt]. split; [reflexivity|]. split; [exact Hi|]. split; [exact I|]. split; intros; lia.
  - destruct Ho as [[Hm|Hp] Ht].
    + cbn [prepare_all main_is_source]. replace (da_type s =? T_MAIN) with true by lia.
      destruct (prepare_source_main s sts b Hi Hm Hu) as (c0 & E & Hc0 & Ha0). rewrite E.
      set (acc' := if dc_is_zero c0 then [] else dc_add [] c0).
      assert (Hacc' : dc_wf acc' /\ forall d, dc_amt d acc' = dc_amt d c0).
      { subst acc'. destruct (dc_is_zero c0) eqn:Ez.
        - split; [exact I|]. intros d. destruct c0; [reflexivity | discriminate].
        - split; [apply dc_add_wf; [exact I | exact Hc0]|]. intros d. rewrite dc_add_amt by (try exact I; assumption). reflexivity. }
      destruct Hacc' as [Hw' Ha'].
      destruct (prepare_all_others t sts b acc' Hi Ht Hw') as (c & sts' & b' & E' & Hi' & Hc' & Hle' & Hu').
      { intros d. rewrite Ha', Ha0. apply Hu. }
      exists c, sts', b'. split; [exact E'|]. split; [exact Hi'|]. split; [exact Hc'|].
      split; [intros d; specialize (Hle' d); rewrite Ha', Ha0 in Hle'; specialize (Hu d); lia|].
      intros d. rewrite Hu', Ha', Ha0. lia.
    + cbn [main_is_source]. destruct Hp as [Hp1 Hp2]. replace (da_type s =? T_MAIN) with false by lia.
      destruct (prepare_all_others (s :: t) sts b [] Hi) as (c & sts' & b' & E' & Hi' & Hc' & Hle' & Hu').
      { constructor; [split; assumption | exact Ht]. } { exact I. } { intros; cbn; lia. }
      exists c, sts', b'. split; [exact E'|]. split; [exact Hi'|]. split; [exact Hc'|].
      split; [intros d; specialize (Hle' d); cbn in Hle'; lia|].
      intros d. rewrite Hu'. cbn [dc_amt]. lia.
Qed.

(* ---------------------------------------------------------------- distribution ------------ *)
Lemma calc_share_nn share c d : dc_wf c -> 0 <= share -> 0 <= dc_amt d (calc_share share c).
Proof.
  intros Hc Hs. destruct (calc_share_spec share c Hc) as [_ Ha]. rewrite Ha.
  destruct (dc_all_positive c) eqn:E; [|lia]. pose proof (dc_all_positive_amt _ E d). unfold dec_mul_trunc.
  pose proof P_pos. rewrite chop_trunc_nonneg by nia. apply Z.div_pos; nia.
Qed.

Lemma add_rem_nn r s : dc_wf r -> dc_wf (st_rem s) -> (forall d, 0 <= dc_amt d r) -> (forall d, 0 <= dc_amt d (st_rem s)) ->
  forall d, 0 <= dc_amt d (st_rem (add_rem r s)).
Proof. intros Hr Hs Hrn Hsn d. unfold add_rem, set_rem; cbn [st_rem]. rewrite dc_add_amt by assumption. specialize (Hrn d). specialize (Hsn d). lia. Qed.

Lemma rem_nonneg_upd_add sts pos share : states_wf sts -> rem_nonneg sts -> dc_wf share -> (forall d, 0 <= dc_amt d share) ->
  rem_nonneg (upd_state sts pos (add_rem share)).
Proof.
  unfold rem_nonneg, states_wf. revert pos. induction sts as [|s t IH]; intros pos Hw Hn Hs Hsn; [destruct pos; constructor|].
  inversion Hw as [|? ? Hw1 Hw2]; inversion Hn as [|? ? Hn1 Hn2]; subst.
  destruct pos; cbn [upd_state]; constructor; auto. apply add_rem_nn; assumption.
Qed.

Lemma add_share_to_account_nn sts dest share sts' :
  add_share_to_account sts dest share = Ok sts' -> states_wf sts -> rem_nonneg sts -> dc_wf share -> (forall d, 0 <= dc_amt d share) ->
  rem_nonneg sts'.
Proof.
  unfold add_share_to_account. destruct (find_account_state sts (da_id dest) 0) as [[pos|]| |]; try discriminate; intros H Hw Hn Hs Hsn; inversion H; subst.
  - apply rem_nonneg_upd_add; assumption.
  - apply Forall_app. split; [exact Hn|]. constructor; [exact Hsn | constructor].
Qed.
Lemma add_share_to_burn_nn sts bk share :
  states_wf sts -> rem_nonneg sts -> dc_wf share -> (forall d, 0 <= dc_amt d share) -> rem_nonneg (add_share_to_burn sts bk share).
Proof.
  intros Hw Hn Hs Hsn. unfold add_share_to_burn. destruct (find_burn_state sts 0).
  - apply rem_nonneg_upd_add; assumption.
  - apply Forall_app. split; [exact Hn|]. constructor; [exact Hsn | constructor].
Qed.

Lemma distribute_shares_nn shares inflow : dc_wf inflow -> shares_ok shares ->
  forall sts dflt evs sts' dflt' evs',
  distribute_shares shares inflow sts dflt evs = Ok (sts', dflt', evs') -> states_wf sts -> rem_nonneg sts -> rem_nonneg sts'.
Proof.
  intros Hin. induction shares as [|sh t IH]; intros Hok sts dflt evs sts' dflt' evs' H Hw Hn.
  - cbn in H. inversion H; subst. exact Hn.
  - inversion Hok as [|? ? Hsh Hok']; subst. cbn [distribute_shares] in H.
    destruct (da_type (sh_dest sh) =? T_MAIN); [eapply IH; eassumption|].
    destruct (calc_share_spec (sh_share sh) inflow Hin) as [Hcw _].
    destruct (dc_sub dflt (calc_share (sh_share sh) inflow)) as [dflt1| |]; try discriminate.
    destruct (dc_is_zero (calc_share (sh_share sh) inflow)); [eapply IH; eassumption|].
    destruct (add_share_to_account sts (sh_dest sh) (calc_share (sh_share sh) inflow)) as [sts1| |] eqn:Ea; try discriminate.
    eapply IH; [exact Hok' | exact H | apply (add_share_to_account_spec _ _ _ _ Ea Hw Hcw) |].
    eapply add_share_to_account_nn; [exact Ea | exact Hw | exact Hn | exact Hcw |]. intros d. apply calc_share_nn; assumption.
Qed.

Lemma start_distribution_nn sd inflow sts bk sts' evs :
  start_distribution sd inflow sts bk = Ok (sts', evs) -> dc_wf inflow -> shares_ok (sd_shares sd) -> 0 <= sd_burn sd ->
  states_wf sts -> rem_nonneg sts -> rem_nonneg sts'.
Proof.
  unfold start_distribution. intros H Hin Hok Hb Hw Hn.
  destruct (distribute_shares (sd_shares sd) inflow sts inflow []) as [[[sts1 dflt1] evs1]| |] eqn:Ed; try discriminate.
  pose proof (distribute_shares_nn _ _ Hin Hok _ _ _ _ _ _ Ed Hw Hn) as Hn1.
  destruct (distribute_shares_wf _ _ Hin _ _ _ _ _ _ Ed Hw Hin) as [Hw1 Hd1].
  destruct (calc_share_spec (sd_burn sd) inflow Hin) as [Hbw _].
  destruct (dc_sub dflt1 (calc_share (sd_burn sd) inflow)) as [dflt2| |] eqn:Es; try discriminate.
  destruct (dc_sub_spec _ _ _ Hd1 Hbw Es) as [Hd2 Hd2n].
  assert (Hfin : forall sts2, states_wf sts2 -> rem_nonneg sts2 ->
            (if da_type (sd_primary sd) =? T_MAIN then Ok (sts2, evs)
             else match add_share_to_account sts2 (sd_primary sd) dflt2 with Ok sts3 => Ok (sts3, evs) | Err => Err | Panic => Panic end) = Ok (sts', evs) ->
            rem_nonneg sts').
  { intros sts2 Hw2 Hn2 H2. destruct (da_type (sd_primary sd) =? T_MAIN); [inversion H2; subst; exact Hn2|].
    destruct (add_share_to_account sts2 (sd_primary sd) dflt2) as [sts3| |] eqn:Ea; try discriminate. inversion H2; subst.
    eapply add_share_to_account_nn; [exact Ea | exact Hw2 | exact Hn2 | exact Hd2 |]. intros d. apply Hd2n. }
  destruct (dc_is_zero (calc_share (sd_burn sd) inflow)).
  - apply (Hfin sts1 Hw1 Hn1). destruct (da_type (sd_primary sd) =? T_MAIN); [inversion H; reflexivity|].
    destruct (add_share_to_account sts1 (sd_primary sd) dflt2); inversion H; reflexivity.
  - apply (Hfin (add_share_to_burn sts1 bk (calc_share (sd_burn sd) inflow))).
    + apply add_share_to_burn_spec; assumption.
    + apply add_share_to_burn_nn; try assumption. intros d. apply calc_share_nn; assumption.
    + destruct (da_type (sd_primary sd) =? T_MAIN); [inversion H; reflexivity|].
      destruct (add_share_to_account _ (sd_primary sd) dflt2); inversion H; reflexivity.
Qed.

(* a non-all-positive inflow (possible only with explicit zero entries) yields empty shares everywhere *)
Lemma dc_sub_nil a : dc_wf a -> (forall d, 0 <= dc_amt d a) -> dc_sub a [] = Ok a.
Proof.
  intros Hw Hn. unfold dc_sub. cbn [dc_neg map]. rewrite dc_add_nil_r.
  rewrite (dc_any_neg_false_intro a (-1) Hw Hn). reflexivity.
Qed.

Lemma distribute_shares_degenerate shares inflow : dc_all_positive inflow = false ->
  forall sts dflt evs, dc_wf dflt -> (forall d, 0 <= dc_amt d dflt) ->
  distribute_shares shares inflow sts dflt evs = Ok (sts, dflt, evs).
Proof.
  intros Hp. induction shares as [|sh t IH]; intros sts dflt evs Hw Hn; [reflexivity|].
  cbn [distribute_shares]. destruct (da_type (sh_dest sh) =? T_MAIN); [apply IH; assumption|].
  unfold calc_share. rewrite Hp. rewrite dc_sub_nil by assumption. cbn [dc_is_zero]. apply IH; assumption.
Qed.

Definition sd_shares_ok (sd : subdist) : Prop :=
  shares_ok (sd_shares sd) /\ 0 <= sd_burn sd /\ shares_total (sd_shares sd) + sd_burn sd <= P.

Lemma start_distribution_ok sd inflow sts bk :
  dc_wf inflow -> (forall d, 0 <= dc_amt d inflow) -> sd_shares_ok sd -> Forall has_acc sts ->
  exists sts' evs, start_distribution sd inflow sts bk = Ok (sts', evs) /\ Forall has_acc sts'.
Proof.
  intros Hin Hnn (Hok & Hb & Htot) Hacc. destruct (dc_all_positive inflow) eqn:Hp.
  - apply start_distribution_no_panic; assumption.
  - unfold start_distribution. rewrite (distribute_shares_degenerate _ _ Hp) by assumption.
    unfold calc_share. rewrite Hp. rewrite dc_sub_nil by assumption. cbn [dc_is_zero].
    destruct (da_type (sd_primary sd) =? T_MAIN); [eauto|].
    destruct (add_share_to_account_ok sts (sd_primary sd) inflow Hacc) as (sts3 & E & Ha). rewrite E. eauto.
Qed.

(* one StartDistributionProcess: everything booked is taken out of the unbooked part; what stays
   unbooked is non-negative and is zero unless the primary destination is MAIN *)
Lemma start_distribution_books sd inflow sts b bk :
  inv sts b -> dc_wf inflow -> (forall d, 0 <= dc_amt d inflow) -> sd_shares_ok sd ->
  exists sts' evs, start_distribution sd inflow sts bk = Ok (sts', evs) /\ inv sts' b /\
    exists ub : Z -> Z, forall d, 0 <= ub d /\ unbooked sts' b d = unbooked sts b d - dc_amt d inflow + ub d /\
                                  (da_type (sd_primary sd) <> T_MAIN -> ub d = 0).
Proof.
  intros Hi Hin Hnn Hsd. destruct (start_distribution_ok sd inflow sts bk Hin Hnn Hsd (i_acc _ _ Hi)) as (sts' & evs & E & Hacc).
  exists sts', evs. split; [exact E|].
  destruct (start_distribution_spec _ _ _ _ _ _ E (i_wf _ _ Hi) Hin Hnn) as (Hw' & Hrem & (ub & Hub) & _).
  destruct Hsd as (Hok & Hb & _).
  split.
  { apply (inv_states sts); [exact Hi | exact Hw' | | exact Hacc].
    eapply start_distribution_nn; try eassumption; apply Hi. }
  exists ub. intros d. destruct (Hub d) as (U1 & U2 & U3). split; [exact U1|]. split; [|exact U3].
  unfold unbooked. rewrite Hrem. lia.
Qed.

(* ---------------------------------------------------------------- all sub-distributors ---- *)
Definition sd_ok (sd : subdist) : Prop := sources_in_order (sd_sources sd) /\ sd_shares_ok sd.
(* is the whole main balance known to be booked after this sub-distributor? *)
Definition booked_step (z : bool) (sd : subdist) : bool :=
  (main_is_source (sd_sources sd) || z) && negb (da_type (sd_primary sd) =? T_MAIN).
Fixpoint booked_after (z : bool) (subs : list subdist) : bool :=
  match subs with [] => z | sd :: t => booked_after (booked_step z sd) t end.

Lemma run_subs_books subs : forall sts b bk evs z,
  inv sts b -> Forall sd_ok subs -> (forall d, 0 <= unbooked sts b d) -> (z = true -> forall d, unbooked sts b d = 0) ->
  exists sts' b' evs', run_subs subs sts b bk evs = Ok (sts', b', evs') /\ inv sts' b' /\ (forall d, 0 <= unbooked sts' b' d) /\
    (booked_after z subs = true -> forall d, unbooked sts' b' d = 0).
Proof.
  induction subs as [|sd t IH]; intros sts b bk evs z Hi Hok Hu Hz; cbn [run_subs booked_after].
  - exists sts, b, evs. split; [reflexivity|]. split; [exact Hi|]. split; [exact Hu|exact Hz].
  - inversion Hok as [|? ? [Hso Hsh] Hok']; subst.
    destruct (prepare_all_books (sd_sources sd) sts b Hi Hso Hu) as (inflow & sts1 & b1 & E1 & Hi1 & Hin & Hnn & Hu1). rewrite E1.
    assert (Hbase : forall d, 0 <= (if main_is_source (sd_sources sd) then 0 else unbooked sts b d)).
    { intros d. destruct (main_is_source (sd_sources sd)); [lia | apply Hu]. }
    assert (Hbz : booked_step z sd = true -> forall d, (if main_is_source (sd_sources sd) then 0 else unbooked sts b d) = 0).
    { unfold booked_step. intros Hb d. apply andb_true_iff in Hb as [Hb _]. destruct (main_is_source (sd_sources sd)); [reflexivity|].
      cbn [orb] in Hb. apply Hz; exact Hb. }
    destruct (dc_is_zero inflow) eqn:Ez.
    + assert (Hin0 : forall d, dc_amt d inflow = 0) by (intros d; destruct inflow; [reflexivity | discriminate]).
      apply (IH sts1 b1 bk evs (booked_step z sd) Hi1 Hok').
      * intros d. rewrite Hu1, Hin0. specialize (Hbase d). lia.
      * intros Hb d. rewrite Hu1, Hin0, (Hbz Hb d). reflexivity.
    + destruct (start_distribution_books sd inflow sts1 b1 bk Hi1 Hin Hnn Hsh) as (sts2 & e & E2 & Hi2 & ub & Hub). rewrite E2.
      apply (IH sts2 b1 bk _ (booked_step z sd) Hi2 Hok').
      * intros d. destruct (Hub d) as (U1 & U2 & _). rewrite U2, Hu1. specialize (Hbase d). lia.
      * intros Hb d. destruct (Hub d) as (U1 & U2 & U3). rewrite U2, Hu1, (Hbz Hb d).
        unfold booked_step in Hb. apply andb_true_iff in Hb as [_ Hb]. rewrite U3 by lia. lia.
Qed.

(* ---------------------------------------------------------------- payouts ----------------- *)
(* a paying state's account is a real other account: not the main account under another name (not K2) *)
Definition state_plain (s : dstate) : Prop :=
  match st_acc s with Some a => st_burn s = false -> da_type a <> T_INTERNAL -> da_addr a <> MAINADDR | None => True end.

Lemma payout_books s b :
  dc_wf (st_rem s) -> (forall d, 0 <= dc_amt d (st_rem s)) -> has_acc s -> state_plain s ->
  bal_wf (bk_bal b) -> bal_nonneg (bk_bal b) -> dc_wf (bk_burned b) ->
  (forall d, dc_amt d (st_rem s) <= mainbal b d * P) ->
  exists s' b', payout s b = Ok (s', b') /\
    dc_wf (st_rem s') /\ (forall d, 0 <= dc_amt d (st_rem s')) /\ st_acc s' = st_acc s /\ st_burn s' = st_burn s /\ st_key s' = st_key s /\
    bal_wf (bk_bal b') /\ bal_nonneg (bk_bal b') /\ dc_wf (bk_burned b') /\
    forall d, mainbal b' d * P - dc_amt d (st_rem s') = mainbal b d * P - dc_amt d (st_rem s) /\ mainbal b' d <= mainbal b d.
Proof.
  intros Hrw Hrn Hacc Hpl Hbw Hbn Hbu Hcov. unfold payout. unfold has_acc in Hacc. unfold state_plain in Hpl.
  destruct (st_acc s) as [a|] eqn:Ea; [|contradiction].
  destruct (negb (da_type a =? T_INTERNAL) && dc_any_gte1 (st_rem s)) eqn:Eg.
  2:{ exists s, b. repeat (split; [solve [auto]|]). intros; lia. }
  destruct (dc_trunc (st_rem s)) as [to_send change] eqn:Et.
  destruct (dc_trunc_spec _ Hrw) as (Hsw & Hcw & Htr). rewrite Et in Hsw, Hcw, Htr. cbn [fst snd] in *.
  pose proof P_pos as HP.
  assert (Hsend : forall d, 0 <= dc_amt d to_send <= dc_amt d (bal_of (bk_bal b) MAINADDR)).
  { intros d. destruct (Htr d) as [Hs1 _]. rewrite Hs1. specialize (Hrn d). specialize (Hcov d). unfold mainbal in Hcov.
    rewrite chop_trunc_nonneg by exact Hrn. split; [apply Z.div_pos; lia|]. apply Z.div_le_upper_bound; lia. }
  assert (Hchg : forall d, 0 <= dc_amt d change).
  { intros d. destruct (Htr d) as [Hs1 Hs2]. rewrite Hs2. specialize (Hrn d). rewrite chop_trunc_nonneg by exact Hrn.
    pose proof (Z.mul_div_le (dc_amt d (st_rem s)) P HP). lia. }
  apply andb_true_iff in Eg as [Eg1 _].
  destruct (st_burn s) eqn:Eb.
  - destruct (burn b MAINADDR to_send) as [ok b1] eqn:Ebn.
    destruct (burn_effect _ _ _ _ _ Ebn Hbw Hbu Hsw Hsend) as (B1 & B2 & B3 & B4).
    exists (if ok then set_rem change s else s), b1. split; [reflexivity|].
    assert (Hnn1 : bal_nonneg (bk_bal b1)).
    { intros x d. destruct (Z.eq_dec x MAINADDR) as [->|N]; [rewrite B4; specialize (Hsend d); specialize (Hbn MAINADDR d); destruct ok; lia | rewrite B3 by exact N; apply Hbn]. }
    assert (Hfin : forall d, mainbal b1 d * P - dc_amt d (st_rem (if ok then set_rem change s else s)) = mainbal b d * P - dc_amt d (st_rem s) /\ mainbal b1 d <= mainbal b d).
    { intros d. unfold mainbal. rewrite B4. destruct (Htr d) as [Hs1 Hs2]. specialize (Hsend d).
      destruct ok; cbn [set_rem st_rem]; [rewrite Hs2, Hs1; lia | lia]. }
    destruct ok; cbn [set_rem st_rem st_acc st_burn st_key]; repeat (split; [solve [auto]|]); exact Hfin.
  - assert (Hne : MAINADDR <> da_addr a) by (intros E; apply (Hpl eq_refl); [lia | symmetry; exact E]).
    destruct (transfer b MAINADDR (da_addr a) to_send) as [ok b1] eqn:Etr.
    destruct (transfer_effect _ _ _ _ _ _ Etr Hne Hbw Hsw Hsend) as (T1 & T2 & T3 & T4 & T5).
    exists (if ok then set_rem change s else s), b1. split; [reflexivity|].
    assert (Hnn1 : bal_nonneg (bk_bal b1)).
    { intros x d. destruct (Z.eq_dec x MAINADDR) as [->|N1].
      - rewrite T4. specialize (Hsend d). specialize (Hbn MAINADDR d). destruct ok; lia.
      - destruct (Z.eq_dec x (da_addr a)) as [->|N2].
        + rewrite T5. specialize (Hsend d). specialize (Hbn (da_addr a) d). destruct ok; lia.
        + rewrite T3 by assumption. apply Hbn. }
    assert (Hbu1 : dc_wf (bk_burned b1)) by (rewrite T1; exact Hbu).
    assert (Hfin : forall d, mainbal b1 d * P - dc_amt d (st_rem (if ok then set_rem change s else s)) = mainbal b d * P - dc_amt d (st_rem s) /\ mainbal b1 d <= mainbal b d).
    { intros d. unfold mainbal. rewrite T4. destruct (Htr d) as [Hs1 Hs2]. specialize (Hsend d).
      destruct ok; cbn [set_rem st_rem]; [rewrite Hs2, Hs1; lia | lia]. }
    destruct ok; cbn [set_rem st_rem st_acc st_burn st_key]; repeat (split; [solve [auto]|]); exact Hfin.
Qed.

(* ---- predicates on a state's (account, burn flag) survive the whole block ---------------- *)
Section Shape.
  Variable R : option dacct -> bool -> Prop.
  Definition shaped (s : dstate) : Prop := R (st_acc s) (st_burn s).

  Lemma shaped_upd sts : forall pos f, Forall shaped sts ->
    (forall s, st_acc (f s) = st_acc s /\ st_burn (f s) = st_burn s) -> Forall shaped (upd_state sts pos f).
  Proof.
    induction sts as [|s t IH]; intros pos f H Hf; [destruct pos; constructor|].
    inversion H as [|? ? Hs Ht]; subst. destruct pos; cbn [upd_state]; constructor; auto.
    unfold shaped. destruct (Hf s) as [-> ->]. exact Hs.
  Qed.

  Lemma shaped_prepare_left coins src sts c sts' : prepare_left coins src sts = Ok (c, sts') -> Forall shaped sts -> Forall shaped sts'.
  Proof.
    unfold prepare_left. destruct (find_account_state sts (da_id src) 0) as [[pos|]| |]; try discriminate.
    - destruct (dc_is_zero _); intros H Hs; inversion H; subst; [exact Hs|]. apply shaped_upd; [exact Hs | intros s; split; reflexivity].
    - intros H Hs; inversion H; subst; exact Hs.
  Qed.

  Lemma shaped_prepare_source src sts b c sts' b' : prepare_source src sts b = Ok (c, sts', b') -> Forall shaped sts -> Forall shaped sts'.
  Proof.
    unfold prepare_source. destruct (da_type src =? T_MAIN).
    - destruct (dc_is_zero _); [intros H Hs; inversion H; subst; exact Hs|].
      destruct (dc_sub _ _); intros H Hs; inversion H; subst; exact Hs.
    - match goal with |- context [prepare_left (fst ?sw)] => generalize sw end. intros sw.
      destruct (prepare_left (fst sw) src sts) as [[c0 s0]| |] eqn:E; intros H Hs; inversion H; subst.
      eapply shaped_prepare_left; eassumption.
  Qed.

  Lemma shaped_prepare_all srcs : forall sts b acc c sts' b', prepare_all srcs sts b acc = Ok (c, sts', b') -> Forall shaped sts -> Forall shaped sts'.
  Proof.
    induction srcs as [|s t IH]; intros sts b acc c sts' b' H Hs; cbn [prepare_all] in H; [inversion H; subst; exact Hs|].
    destruct (prepare_source s sts b) as [[[c0 s0] b0]| |] eqn:E; try discriminate.
    eapply IH; [exact H|]. eapply shaped_prepare_source; eassumption.
  Qed.

  Lemma shaped_add_share_to_account sts dest share sts' :
    add_share_to_account sts dest share = Ok sts' -> Forall shaped sts -> R (Some dest) false -> Forall shaped sts'.
  Proof.
    unfold add_share_to_account. destruct (find_account_state sts (da_id dest) 0) as [[pos|]| |]; try discriminate; intros H Hs Hd; inversion H; subst.
    - apply shaped_upd; [exact Hs | intros s; split; reflexivity].
    - apply Forall_app. split; [exact Hs|]. constructor; [exact Hd | constructor].
  Qed.

  Lemma shaped_add_share_to_burn sts bk share : Forall shaped sts -> R (Some EMPTY_ACCT) true -> Forall shaped (add_share_to_burn sts bk share).
  Proof.
    intros Hs Hb. unfold add_share_to_burn. destruct (find_burn_state sts 0).
    - apply shaped_upd; [exact Hs | intros s; split; reflexivity].
    - apply Forall_app. split; [exact Hs|]. constructor; [exact Hb | constructor].
  Qed.

  Definition dests_shaped (sd : subdist) : Prop :=
    Forall (fun sh => da_type (sh_dest sh) <> T_MAIN -> R (Some (sh_dest sh)) false) (sd_shares sd)
    /\ (da_type (sd_primary sd) <> T_MAIN -> R (Some (sd_primary sd)) false).

  Lemma shaped_distribute_shares shares inflow : forall sts dflt evs sts' dflt' evs',
    distribute_shares shares inflow sts dflt evs = Ok (sts', dflt', evs') -> Forall shaped sts ->
    Forall (fun sh => da_type (sh_dest sh) <> T_MAIN -> R (Some (sh_dest sh)) false) shares -> Forall shaped sts'.
  Proof.
    induction shares as [|sh t IH]; intros sts dflt evs sts' dflt' evs' H Hs Hd; cbn [distribute_shares] in H; [inversion H; subst; exact Hs|].
    inversion Hd as [|? ? Hsh Hd']; subst.
    destruct (da_type (sh_dest sh) =? T_MAIN) eqn:Em; [eapply IH; eassumption|].
    destruct (dc_sub dflt (calc_share (sh_share sh) inflow)); try discriminate.
    destruct (dc_is_zero (calc_share (sh_share sh) inflow)); [eapply IH; eassumption|].
    destruct (add_share_to_account sts (sh_dest sh) (calc_share (sh_share sh) inflow)) as [sts1| |] eqn:Ea; try discriminate.
    eapply IH; [exact H | | exact Hd']. eapply shaped_add_share_to_account; [exact Ea | exact Hs | apply Hsh; lia].
  Qed.

  Lemma shaped_start_distribution sd inflow sts bk sts' evs :
    start_distribution sd inflow sts bk = Ok (sts', evs) -> Forall shaped sts -> dests_shaped sd -> R (Some EMPTY_ACCT) true -> Forall shaped sts'.
  Proof.
    unfold start_distribution. intros H Hs [Hd Hp] Hb.
    destruct (distribute_shares (sd_shares sd) inflow sts inflow []) as [[[sts1 dflt1] evs1]| |] eqn:Ed; try discriminate.
    pose proof (shaped_distribute_shares _ _ _ _ _ _ _ _ Ed Hs Hd) as Hs1.
    destruct (dc_sub dflt1 (calc_share (sd_burn sd) inflow)) as [dflt2| |]; try discriminate.
    assert (Hfin : forall sts2 e, Forall shaped sts2 ->
              (if da_type (sd_primary sd) =? T_MAIN then Ok (sts2, e)
               else match add_share_to_account sts2 (sd_primary sd) dflt2 with Ok sts3 => Ok (sts3, evs) | Err => Err | Panic => Panic end) = Ok (sts', evs) ->
              Forall shaped sts').
    { intros sts2 e Hs2 H2. destruct (da_type (sd_primary sd) =? T_MAIN) eqn:Em; [inversion H2; subst; exact Hs2|].
      destruct (add_share_to_account sts2 (sd_primary sd) dflt2) as [sts3| |] eqn:Ea; try discriminate. inversion H2; subst.
      eapply shaped_add_share_to_account; [exact Ea | exact Hs2 | apply Hp; lia]. }
    destruct (dc_is_zero (calc_share (sd_burn sd) inflow)).
    - apply (Hfin sts1 evs Hs1). destruct (da_type (sd_primary sd) =? T_MAIN); [inversion H; reflexivity|].
      destruct (add_share_to_account sts1 (sd_primary sd) dflt2); inversion H; reflexivity.
    - apply (Hfin (add_share_to_burn sts1 bk (calc_share (sd_burn sd) inflow)) evs).
      + apply shaped_add_share_to_burn; assumption.
      + destruct (da_type (sd_primary sd) =? T_MAIN); [inversion H; reflexivity|].
        destruct (add_share_to_account _ (sd_primary sd) dflt2); inversion H; reflexivity.
  Qed.

  Lemma shaped_run_subs subs : forall sts b bk evs sts' b' evs',
    run_subs subs sts b bk evs = Ok (sts', b', evs') -> Forall shaped sts -> Forall dests_shaped subs -> R (Some EMPTY_ACCT) true -> Forall shaped sts'.
  Proof.
    induction subs as [|sd t IH]; intros sts b bk evs sts' b' evs' H Hs Hd Hb; cbn [run_subs] in H; [inversion H; subst; exact Hs|].
    inversion Hd as [|? ? Hsd Hd']; subst.
    destruct (prepare_all (sd_sources sd) sts b []) as [[[inflow s1] b1]| |] eqn:E; try discriminate.
    pose proof (shaped_prepare_all _ _ _ _ _ _ _ E Hs) as Hs1.
    destruct (dc_is_zero inflow); [eapply IH; eassumption|].
    destruct (start_distribution sd inflow s1 bk) as [[s2 e]| |] eqn:Es; try discriminate.
    eapply IH; [exact H | | exact Hd' | exact Hb]. eapply shaped_start_distribution; eassumption.
  Qed.
End Shape.

Lemma remsum_cons d s t : remsum d (s :: t) = dc_amt d (st_rem s) + remsum d t.
Proof. reflexivity. Qed.

Definition same_sig (s s' : dstate) : Prop := st_acc s' = st_acc s /\ st_burn s' = st_burn s /\ st_key s' = st_key s.

Lemma payout_all_books sts : forall b pre,
  states_wf (pre ++ sts) -> rem_nonneg (pre ++ sts) -> Forall has_acc sts -> Forall state_plain sts ->
  bal_wf (bk_bal b) -> bal_nonneg (bk_bal b) -> dc_wf (bk_burned b) ->
  (forall d, 0 <= unbooked (pre ++ sts) b d) ->
  exists sts' b', payout_all sts b = Ok (sts', b') /\
    states_wf (pre ++ sts') /\ rem_nonneg (pre ++ sts') /\ Forall has_acc sts' /\ Forall2 same_sig sts sts' /\
    bal_wf (bk_bal b') /\ bal_nonneg (bk_bal b') /\ dc_wf (bk_burned b') /\
    forall d, unbooked (pre ++ sts') b' d = unbooked (pre ++ sts) b d.
Proof.
  induction sts as [|s t IH]; intros b pre Hw Hn Ha Hp Hbw Hbn Hbu Hu; cbn [payout_all].
  - exists [], b. repeat (split; [solve [auto]|]). reflexivity.
  - inversion Ha as [|? ? Ha1 Ha2]; inversion Hp as [|? ? Hp1 Hp2]; subst.
    pose proof (proj1 (Forall_app _ _ _) Hw) as [Hwp Hwst]. inversion Hwst as [|? ? Hws Hwt]; subst.
    pose proof (proj1 (Forall_app _ _ _) Hn) as [Hnp Hnst]. inversion Hnst as [|? ? Hns Hnt]; subst.
    assert (Hcov : forall d, dc_amt d (st_rem s) <= mainbal b d * P).
    { intros d. specialize (Hu d). unfold unbooked in Hu. rewrite remsum_app, remsum_cons in Hu.
      pose proof (remsum_nonneg d pre Hnp). pose proof (remsum_nonneg d t Hnt). lia. }
    destruct (payout_books s b Hws Hns Ha1 Hp1 Hbw Hbn Hbu Hcov)
      as (s' & b1 & E & Hw' & Hn' & Eacc & Eburn & Ekey & Hbw1 & Hbn1 & Hbu1 & Hm).
    rewrite E.
    assert (Ha1' : has_acc s') by (unfold has_acc in *; rewrite Eacc; exact Ha1).
    destruct (IH b1 (pre ++ [s'])) as (t' & b2 & E2 & Hw2 & Hn2 & Ha2' & Hk2 & Hbw2 & Hbn2 & Hbu2 & Hu2); try assumption.
    + rewrite <- app_assoc. cbn [app]. apply Forall_app. split; [exact Hwp | constructor; assumption].
    + rewrite <- app_assoc. cbn [app]. apply Forall_app. split; [exact Hnp | constructor; assumption].
    + intros d. unfold unbooked. rewrite <- app_assoc. cbn [app]. rewrite remsum_app, remsum_cons.
      specialize (Hu d). unfold unbooked in Hu. rewrite remsum_app, remsum_cons in Hu. destruct (Hm d) as [Hm1 _]. lia.
    + rewrite E2. exists (s' :: t'), b2. split; [reflexivity|].
      rewrite <- app_assoc in Hw2, Hn2, Hu2. cbn [app] in Hw2, Hn2, Hu2.
      split; [exact Hw2|]. split; [exact Hn2|]. split; [constructor; assumption|].
      split; [constructor; [split; [exact Eacc | split; [exact Eburn | exact Ekey]] | exact Hk2]|]. split; [exact Hbw2|]. split; [exact Hbn2|]. split; [exact Hbu2|].
      intros d. rewrite Hu2. unfold unbooked. rewrite !remsum_app, !remsum_cons. change (remsum d []) with 0. destruct (Hm d) as [Hm1 _]. lia.
Qed.

(* ---------------------------------------------------------------- one block --------------- *)
Definition plainR (acc : option dacct) (burn : bool) : Prop :=
  match acc with Some a => burn = false -> da_type a <> T_INTERNAL -> da_addr a <> MAINADDR | None => True end.
Lemma state_plain_shaped s : state_plain s <-> shaped plainR s.
Proof. unfold state_plain, shaped, plainR. reflexivity. Qed.

(* the configuration: per sub-distributor MAIN is the first source or no source (not K1), shares are
   fractions adding up to at most 1, and no source or destination is the main account under another
   name (not K2) *)
Definition cfg_ok (subs : list subdist) : Prop := Forall sd_ok subs /\ Forall (dests_shaped plainR) subs.

Lemma same_sig_shaped R sts sts' : Forall2 same_sig sts sts' -> Forall (shaped R) sts -> Forall (shaped R) sts'.
Proof.
  induction 1 as [|s s' t t' (E1 & E2 & _) _ IH]; intros H; [constructor|].
  inversion H as [|? ? Hs Ht]; subst. constructor; [unfold shaped; rewrite E1, E2; exact Hs | apply IH; exact Ht].
Qed.

Theorem block_books subs sts b bk :
  inv sts b -> Forall state_plain sts -> cfg_ok subs -> (forall d, 0 <= unbooked sts b d) ->
  exists sts1 b1 evs sts2 b2,
    run_subs subs sts b bk [] = Ok (sts1, b1, evs) /\ payout_all sts1 b1 = Ok (sts2, b2) /\
    inv sts2 b2 /\ Forall state_plain sts2 /\ Forall2 same_sig sts1 sts2 /\
    (forall d, 0 <= unbooked sts2 b2 d) /\
    (booked_after false subs = true -> forall d, unbooked sts2 b2 d = 0).
Proof.
  intros Hi Hp [Hok Hd] Hu.
  destruct (run_subs_books subs sts b bk [] false Hi Hok Hu ltac:(discriminate)) as (sts1 & b1 & evs & E1 & Hi1 & Hu1 & Hz1).
  assert (Hp1 : Forall state_plain sts1).
  { eapply (shaped_run_subs plainR); [exact E1 | exact Hp | exact Hd | cbn; discriminate]. }
  destruct (payout_all_books sts1 b1 [] (i_wf _ _ Hi1) (i_nn _ _ Hi1) (i_acc _ _ Hi1) Hp1 (i_bwf _ _ Hi1) (i_bnn _ _ Hi1) (i_burned _ _ Hi1) Hu1)
    as (sts2 & b2 & E2 & Hw2 & Hn2 & Ha2 & Hsig & Hbw2 & Hbn2 & Hbu2 & Hu2).
  cbn [app] in *.
  exists sts1, b1, evs, sts2, b2. split; [exact E1|]. split; [exact E2|].
  split; [constructor; assumption|]. split; [eapply (same_sig_shaped plainR); eassumption|]. split; [exact Hsig|].
  split; [intros d; rewrite Hu2; apply Hu1|]. intros Hb d. rewrite Hu2. apply Hz1; exact Hb.
Qed.

(* ---------------------------------------------------------------- how the state list evolves *)
(* inside a block the list of states only changes by in-place updates that keep (account, burn flag,
   key), by appending a state for a destination no state answers to, and by appending the burn state
   when there is none *)
Definition new_dest_state (dest : dacct) (share : dcoins) : dstate :=
  {| st_acc := Some dest; st_burn := false; st_key := da_key dest; st_rem := share |}.
Definition new_burn_state (bk : Z) (share : dcoins) : dstate :=
  {| st_acc := Some EMPTY_ACCT; st_burn := true; st_key := bk; st_rem := share |}.

Section Evolves.
  Variable D : dacct -> Prop.          (* the destinations of the configuration *)
  Variable bk : Z.                     (* key of the burn state *)

  Inductive evolves : list dstate -> list dstate -> Prop :=
  | ev_refl l : evolves l l
  | ev_upd l pos f l' : (forall s, same_sig s (f s)) -> evolves (upd_state l pos f) l' -> evolves l l'
  | ev_dest l dest share l' : D dest -> find_account_state l (da_id dest) 0 = Ok None ->
      evolves (l ++ [new_dest_state dest share]) l' -> evolves l l'
  | ev_burn l share l' : find_burn_state l 0 = None -> evolves (l ++ [new_burn_state bk share]) l' -> evolves l l'.

  Lemma evolves_trans a b c : evolves a b -> evolves b c -> evolves a c.
  Proof. induction 1; intros; eauto using evolves. Qed.

  Lemma sig_set_rem r s : same_sig s (set_rem r s). Proof. repeat split. Qed.
  Lemma sig_add_rem r s : same_sig s (add_rem r s). Proof. repeat split. Qed.

  Lemma evolves_prepare_left coins src sts c sts' : prepare_left coins src sts = Ok (c, sts') -> evolves sts sts'.
  Proof.
    unfold prepare_left. destruct (find_account_state sts (da_id src) 0) as [[pos|]| |]; try discriminate.
    - destruct (dc_is_zero _); intros H; inversion H; subst; [apply ev_refl|].
      eapply ev_upd; [intros s; apply sig_set_rem | apply ev_refl].
    - intros H; inversion H; subst; apply ev_refl.
  Qed.
  Lemma evolves_prepare_source src sts b c sts' b' : prepare_source src sts b = Ok (c, sts', b') -> evolves sts sts'.
  Proof.
    unfold prepare_source. destruct (da_type src =? T_MAIN).
    - destruct (dc_is_zero _); [intros H; inversion H; subst; apply ev_refl|].
      destruct (dc_sub _ _); intros H; inversion H; subst; apply ev_refl.
    - match goal with |- context [prepare_left (fst ?sw)] => generalize sw end. intros sw.
      destruct (prepare_left (fst sw) src sts) as [[c0 s0]| |] eqn:E; intros H; inversion H; subst.
      eapply evolves_prepare_left; eassumption.
  Qed.
  Lemma evolves_prepare_all srcs : forall sts b acc c sts' b', prepare_all srcs sts b acc = Ok (c, sts', b') -> evolves sts sts'.
  Proof.
    induction srcs as [|s t IH]; intros sts b acc c sts' b' H; cbn [prepare_all] in H; [inversion H; subst; apply ev_refl|].
    destruct (prepare_source s sts b) as [[[c0 s0] b0]| |] eqn:E; try discriminate.
    eapply evolves_trans; [eapply evolves_prepare_source; exact E | eapply IH; exact H].
  Qed.
  Lemma evolves_add_share_to_account sts dest share sts' : add_share_to_account sts dest share = Ok sts' -> D dest -> evolves sts sts'.
  Proof.
    unfold add_share_to_account. destruct (find_account_state sts (da_id dest) 0) as [[pos|]| |] eqn:E; try discriminate; intros H Hd; inversion H; subst.
    - eapply ev_upd; [intros s; apply sig_add_rem | apply ev_refl].
    - eapply ev_dest; [exact Hd | exact E | apply ev_refl].
  Qed.
  Lemma evolves_add_share_to_burn sts share : evolves sts (add_share_to_burn sts bk share).
  Proof.
    unfold add_share_to_burn. destruct (find_burn_state sts 0) eqn:E.
    - eapply ev_upd; [intros s; apply sig_add_rem | apply ev_refl].
    - eapply ev_burn; [exact E | apply ev_refl].
  Qed.

  Definition dests_in (sd : subdist) : Prop :=
    Forall (fun sh => da_type (sh_dest sh) <> T_MAIN -> D (sh_dest sh)) (sd_shares sd) /\ (da_type (sd_primary sd) <> T_MAIN -> D (sd_primary sd)).

  Lemma evolves_distribute_shares shares inflow : forall sts dflt evs sts' dflt' evs',
    distribute_shares shares inflow sts dflt evs = Ok (sts', dflt', evs') ->
    Forall (fun sh => da_type (sh_dest sh) <> T_MAIN -> D (sh_dest sh)) shares -> evolves sts sts'.
  Proof.
    induction shares as [|sh t IH]; intros sts dflt evs sts' dflt' evs' H Hd; cbn [distribute_shares] in H; [inversion H; subst; apply ev_refl|].
    inversion Hd as [|? ? Hsh Hd']; subst.
    destruct (da_type (sh_dest sh) =? T_MAIN) eqn:Em; [eapply IH; eassumption|].
    destruct (dc_sub dflt (calc_share (sh_share sh) inflow)); try discriminate.
    destruct (dc_is_zero (calc_share (sh_share sh) inflow)); [eapply IH; eassumption|].
    destruct (add_share_to_account sts (sh_dest sh) (calc_share (sh_share sh) inflow)) as [sts1| |] eqn:Ea; try discriminate.
    eapply evolves_trans; [eapply evolves_add_share_to_account; [exact Ea | apply Hsh; lia] | eapply IH; eassumption].
  Qed.

  Lemma evolves_start_distribution sd inflow sts sts' evs :
    start_distribution sd inflow sts bk = Ok (sts', evs) -> dests_in sd -> evolves sts sts'.
  Proof.
    unfold start_distribution. intros H [Hd Hp].
    destruct (distribute_shares (sd_shares sd) inflow sts inflow []) as [[[sts1 dflt1] evs1]| |] eqn:Ed; try discriminate.
    pose proof (evolves_distribute_shares _ _ _ _ _ _ _ _ Ed Hd) as H1.
    destruct (dc_sub dflt1 (calc_share (sd_burn sd) inflow)) as [dflt2| |]; try discriminate.
    assert (Hfin : forall sts2 e, evolves sts sts2 ->
              (if da_type (sd_primary sd) =? T_MAIN then Ok (sts2, e)
               else match add_share_to_account sts2 (sd_primary sd) dflt2 with Ok sts3 => Ok (sts3, evs) | Err => Err | Panic => Panic end) = Ok (sts', evs) ->
              evolves sts sts').
    { intros sts2 e H2 H3. destruct (da_type (sd_primary sd) =? T_MAIN) eqn:Em; [inversion H3; subst; exact H2|].
      destruct (add_share_to_account sts2 (sd_primary sd) dflt2) as [sts3| |] eqn:Ea; try discriminate. inversion H3; subst.
      eapply evolves_trans; [exact H2 | eapply evolves_add_share_to_account; [exact Ea | apply Hp; lia]]. }
    destruct (dc_is_zero (calc_share (sd_burn sd) inflow)).
    - apply (Hfin sts1 evs H1). destruct (da_type (sd_primary sd) =? T_MAIN); [inversion H; reflexivity|].
      destruct (add_share_to_account sts1 (sd_primary sd) dflt2); inversion H; reflexivity.
    - apply (Hfin (add_share_to_burn sts1 bk (calc_share (sd_burn sd) inflow)) evs).
      + eapply evolves_trans; [exact H1 | apply evolves_add_share_to_burn].
      + destruct (da_type (sd_primary sd) =? T_MAIN); [inversion H; reflexivity|].
        destruct (add_share_to_account _ (sd_primary sd) dflt2); inversion H; reflexivity.
  Qed.

  Lemma evolves_run_subs subs : forall sts b evs sts' b' evs',
    run_subs subs sts b bk evs = Ok (sts', b', evs') -> Forall dests_in subs -> evolves sts sts'.
  Proof.
    induction subs as [|sd t IH]; intros sts b evs sts' b' evs' H Hd; cbn [run_subs] in H; [inversion H; subst; apply ev_refl|].
    inversion Hd as [|? ? Hsd Hd']; subst.
    destruct (prepare_all (sd_sources sd) sts b []) as [[[inflow s1] b1]| |] eqn:E; try discriminate.
    pose proof (evolves_prepare_all _ _ _ _ _ _ _ E) as H1.
    destruct (dc_is_zero inflow); [eapply evolves_trans; [exact H1 | eapply IH; eassumption]|].
    destruct (start_distribution sd inflow s1 bk) as [[s2 e]| |] eqn:Es; try discriminate.
    eapply evolves_trans; [exact H1|]. eapply evolves_trans; [eapply evolves_start_distribution; eassumption | eapply IH; eassumption].
  Qed.
End Evolves.

(* ---------------------------------------------------------------- key discipline ---------- *)
Section Keys.
  Variable D : dacct -> Prop.
  Variable bk : Z.
  Variable Known : dacct -> Prop.      (* accounts whose store key "Type-Id" is da_key: keys determine ids *)
  Hypothesis Known_bk : forall a, Known a -> da_key a <> bk.
  Hypothesis key_inj : forall a a', Known a -> Known a' -> da_key a = da_key a' -> da_id a = da_id a'.
  Hypothesis D_known : forall a, D a -> Known a.

  (* a state is stored under the key of its account; the burn state under the burn key *)
  Definition keyed (s : dstate) : Prop :=
    match st_acc s with None => False | Some a => if st_burn s then st_key s = bk else st_key s = da_key a /\ Known a end.

  Lemma keys_upd l : forall pos f, (forall s, same_sig s (f s)) -> map st_key (upd_state l pos f) = map st_key l.
  Proof.
    induction l as [|s t IH]; intros pos f Hf; [destruct pos; reflexivity|]. destruct pos; cbn [upd_state map].
    - destruct (Hf s) as (_ & _ & ->). reflexivity.
    - rewrite IH by exact Hf. reflexivity.
  Qed.
  Lemma keyed_upd l : forall pos f, (forall s, same_sig s (f s)) -> Forall keyed l -> Forall keyed (upd_state l pos f).
  Proof.
    induction l as [|s t IH]; intros pos f Hf H; [destruct pos; constructor|]. inversion H as [|? ? Hs Ht]; subst.
    destruct pos; cbn [upd_state]; constructor; auto. unfold keyed in *. destruct (Hf s) as (-> & -> & ->). exact Hs.
  Qed.

  Lemma fresh_dest l dest : forall start, Forall keyed l -> Known dest -> find_account_state l (da_id dest) start = Ok None ->
    ~ In (da_key dest) (map st_key l).
  Proof.
    induction l as [|s t IH]; intros start Hk Hd Hf; [intros []|]. inversion Hk as [|? ? Hs Ht]; subst.
    cbn [find_account_state] in Hf. unfold keyed in Hs. destruct (st_acc s) as [a|]; [|contradiction].
    destruct (da_id a =? da_id dest) eqn:Eid; [discriminate|]. cbn [map In]. intros [E|E]; [|exact (IH _ Ht Hd Hf E)].
    destruct (st_burn s).
    - apply (Known_bk dest Hd). congruence.
    - destruct Hs as [Hs1 Hs2]. assert (da_id a = da_id dest) by (apply key_inj; [assumption | assumption | congruence]). lia.
  Qed.
  Lemma fresh_burn l : forall start, Forall keyed l -> find_burn_state l start = None -> ~ In bk (map st_key l).
  Proof.
    induction l as [|s t IH]; intros start Hk Hf; [intros []|]. inversion Hk as [|? ? Hs Ht]; subst.
    cbn [find_burn_state] in Hf. unfold keyed in Hs. destruct (st_acc s) as [a|]; [|contradiction].
    destruct (st_burn s); [discriminate|]. destruct Hs as [Hs1 Hs2]. cbn [map In]. intros [E|E]; [|exact (IH _ Ht Hf E)].
    apply (Known_bk a Hs2). congruence.
  Qed.

  Lemma NoDup_snoc (l : list Z) x : NoDup l -> ~ In x l -> NoDup (l ++ [x]).
  Proof.
    intros Hn Hx. apply NoDup_rev in Hn. rewrite <- (rev_involutive (l ++ [x])). apply NoDup_rev. rewrite rev_app_distr. cbn.
    constructor; [rewrite <- in_rev; exact Hx | exact Hn].
  Qed.

  Lemma evolves_keys l l' : evolves D bk l l' -> Forall keyed l -> NoDup (map st_key l) ->
    Forall keyed l' /\ NoDup (map st_key l') /\ exists nk, map st_key l' = map st_key l ++ nk.
  Proof.
    induction 1 as [l | l pos f l' Hf _ IH | l dest share l' Hd Hfind _ IH | l share l' Hfind _ IH]; intros Hk Hn.
    - split; [exact Hk|]. split; [exact Hn|]. exists []. rewrite app_nil_r. reflexivity.
    - destruct IH as (A & B & nk & C); [apply keyed_upd; assumption | rewrite keys_upd by exact Hf; exact Hn|].
      split; [exact A|]. split; [exact B|]. exists nk. rewrite C, keys_upd by exact Hf. reflexivity.
    - destruct IH as (A & B & nk & C).
      + apply Forall_app. split; [exact Hk|]. constructor; [|constructor]. unfold keyed, new_dest_state; cbn. split; [reflexivity | apply D_known; exact Hd].
      + rewrite map_app. cbn [map new_dest_state st_key]. apply NoDup_snoc; [exact Hn|]. eapply fresh_dest; [exact Hk | apply D_known; exact Hd | exact Hfind].
      + split; [exact A|]. split; [exact B|]. exists (da_key dest :: nk). rewrite C, map_app, <- app_assoc. reflexivity.
    - destruct IH as (A & B & nk & C).
      + apply Forall_app. split; [exact Hk|]. constructor; [|constructor]. unfold keyed, new_burn_state; cbn. reflexivity.
      + rewrite map_app. cbn [map new_burn_state st_key]. apply NoDup_snoc; [exact Hn|]. eapply fresh_burn; eassumption.
      + split; [exact A|]. split; [exact B|]. exists (bk :: nk). rewrite C, map_app, <- app_assoc. reflexivity.
  Qed.
End Keys.

(* ---------------------------------------------------------------- writing the states back -- *)
From Coq Require Import Permutation.

Fixpoint ksorted (l : list dstate) : Prop :=
  match l with [] => True | s :: t => Forall (fun x => st_key s < st_key x) t /\ ksorted t end.

Lemma ksorted_keys l : forall l', map st_key l = map st_key l' -> ksorted l -> ksorted l'.
Proof.
  induction l as [|s t IH]; intros [|s' t'] Hm H; try discriminate; [exact I|].
  cbn [map] in Hm. injection Hm as Hk Hm. destruct H as [H1 H2]. split; [|apply (IH t' Hm H2)].
  rewrite <- Hk. clear - H1 Hm. revert t' Hm. induction t as [|x t IH]; intros [|x' t'] Hm; try discriminate; [constructor|].
  cbn [map] in Hm. injection Hm as Hk Hm. inversion H1 as [|? ? Hx Ht]; subst. constructor; [lia | apply IH; assumption].
Qed.

Lemma ksorted_app_lt pre x post : ksorted (pre ++ x :: post) -> Forall (fun s => st_key s < st_key x) pre.
Proof.
  induction pre as [|p t IH]; cbn [app ksorted]; intros H; [constructor|]. destruct H as [H1 H2].
  constructor; [|apply IH; exact H2]. apply (proj1 (Forall_forall _ _) H1). apply in_or_app. right. left. reflexivity.
Qed.

Lemma store_insert_replace pre y x post :
  Forall (fun s => st_key s < st_key y) pre -> st_key y = st_key x -> store_insert y (pre ++ x :: post) = pre ++ y :: post.
Proof.
  induction pre as [|p t IH]; intros Hlt Hk; cbn [app store_insert].
  - replace (st_key y <? st_key x) with false by lia. replace (st_key y =? st_key x) with true by lia. reflexivity.
  - inversion Hlt as [|? ? Hp Ht]; subst. replace (st_key y <? st_key p) with false by lia. replace (st_key y =? st_key p) with false by lia.
    rewrite IH by assumption. reflexivity.
Qed.

Lemma store_all_replace ys : forall xs pre, map st_key ys = map st_key xs -> ksorted (pre ++ xs) -> store_all ys (pre ++ xs) = pre ++ ys.
Proof.
  unfold store_all. induction ys as [|y ys IH]; intros [|x xs] pre Hm Hs; try discriminate; [reflexivity|].
  cbn [map] in Hm. injection Hm as Hk Hm. cbn [fold_left].
  rewrite store_insert_replace; [| | exact Hk].
  - replace (pre ++ y :: xs) with ((pre ++ [y]) ++ xs) by (rewrite <- app_assoc; reflexivity).
    rewrite IH; [rewrite <- app_assoc; reflexivity | exact Hm |].
    rewrite <- app_assoc. cbn [app]. eapply ksorted_keys; [|exact Hs]. rewrite !map_app. cbn [map]. rewrite Hk. reflexivity.
  - rewrite Hk. eapply ksorted_app_lt; exact Hs.
Qed.

Lemma store_insert_fresh s : forall L, ksorted L -> ~ In (st_key s) (map st_key L) ->
  ksorted (store_insert s L) /\ Permutation (store_insert s L) (s :: L).
Proof.
  induction L as [|x t IH]; intros Hs Hn; cbn [store_insert].
  - split; [cbn; split; [constructor | exact I] | apply Permutation_refl].
  - destruct Hs as [H1 H2]. cbn [map In] in Hn.
    destruct (st_key s <? st_key x) eqn:E1.
    + split; [|apply Permutation_refl]. cbn [ksorted]. split; [|split; assumption].
      constructor; [lia|]. eapply Forall_impl; [|exact H1]. cbn. intros; lia.
    + destruct (st_key s =? st_key x) eqn:E2; [exfalso; apply Hn; left; lia|].
      destruct (IH H2) as [A B]; [intros Hin; apply Hn; right; exact Hin|].
      split.
      * cbn [ksorted]. split; [|exact A]. eapply Permutation_Forall; [apply Permutation_sym; exact B|]. constructor; [lia | exact H1].
      * eapply perm_trans; [apply perm_skip; exact B | apply perm_swap].
Qed.

Lemma store_all_fresh ns : forall L, ksorted L -> NoDup (map st_key (L ++ ns)) ->
  ksorted (store_all ns L) /\ Permutation (store_all ns L) (L ++ ns).
Proof.
  unfold store_all. induction ns as [|n ns IH]; intros L Hs Hn; cbn [fold_left].
  - rewrite app_nil_r. split; [exact Hs | apply Permutation_refl].
  - assert (Hfresh : ~ In (st_key n) (map st_key L)).
    { rewrite map_app in Hn. cbn [map] in Hn. apply NoDup_remove_2 in Hn. intros Hin. apply Hn. apply in_or_app. left. exact Hin. }
    destruct (store_insert_fresh n L Hs Hfresh) as [A B].
    assert (Hperm : Permutation (store_insert n L ++ ns) (L ++ n :: ns)).
    { eapply perm_trans; [apply Permutation_app_tail; exact B|]. cbn [app]. apply Permutation_middle. }
    destruct (IH (store_insert n L) A) as [C E].
    + eapply Permutation_NoDup; [|exact Hn]. apply Permutation_map. apply Permutation_sym. exact Hperm.
    + split; [exact C|]. eapply perm_trans; [exact E | exact Hperm].
Qed.

Theorem store_all_perm sts store nk :
  ksorted store -> map st_key sts = map st_key store ++ nk -> NoDup (map st_key sts) ->
  ksorted (store_all sts store) /\ Permutation (store_all sts store) sts.
Proof.
  intros Hs Hm Hn. apply map_eq_app in Hm as (ys & ns & -> & Hy & Hns).
  unfold store_all. rewrite fold_left_app. fold (store_all ys store). fold (store_all ns (store_all ys store)).
  pose proof (store_all_replace ys store [] Hy Hs) as Hr. cbn [app] in Hr. rewrite Hr.
  apply store_all_fresh; [eapply ksorted_keys; [symmetry; exact Hy | exact Hs] | exact Hn].
Qed.

Lemma remsum_perm d l l' : Permutation l l' -> remsum d l = remsum d l'.
Proof. unfold remsum. induction 1; cbn [map zsum]; lia. Qed.

(* ---------------------------------------------------------------- the world, block by block *)
Lemma ksorted_NoDup l : ksorted l -> NoDup (map st_key l).
Proof.
  induction l as [|s t IH]; intros H; cbn [map]; [constructor|]. destruct H as [H1 H2]. constructor; [|apply IH; exact H2].
  intros Hin. apply in_map_iff in Hin as (x & Hk & Hx). pose proof (proj1 (Forall_forall _ _) H1 x Hx) as Hlt. cbn beta in Hlt. lia.
Qed.

Lemma same_sig_keys sts sts' : Forall2 same_sig sts sts' -> map st_key sts' = map st_key sts.
Proof. induction 1 as [|s s' t t' (_ & _ & E) _ IH]; cbn [map]; [reflexivity | rewrite E, IH; reflexivity]. Qed.

Section World.
  Variable bk : Z.
  Variable Known : dacct -> Prop.
  Hypothesis Known_bk : forall a, Known a -> da_key a <> bk.
  Hypothesis key_inj : forall a a', Known a -> Known a' -> da_key a = da_key a' -> da_id a = da_id a'.

  Lemma same_sig_keyed sts sts' : Forall2 same_sig sts sts' -> Forall (keyed bk Known) sts -> Forall (keyed bk Known) sts'.
  Proof.
    induction 1 as [|s s' t t' (E1 & E2 & E3) _ IH]; intros H; [constructor|]. inversion H as [|? ? Hs Ht]; subst.
    constructor; [unfold keyed in *; rewrite E1, E2, E3; exact Hs | apply IH; exact Ht].
  Qed.

  Definition bank_of (w : dworld) (faults : list bool) : bank :=
    {| bk_bal := dw_bal w; bk_burned := dw_burned w; bk_faults := faults; bk_calls := 0 |}.
  Definition wunbooked (w : dworld) (d : Z) : Z := unbooked (dw_states w) (bank_of w []) d.
  Definition Books (w : dworld) : Prop := forall d, wunbooked w d = 0.

  Record winv (w : dworld) : Prop := {
    w_inv : inv (dw_states w) (bank_of w []);
    w_plain : Forall state_plain (dw_states w);
    w_keyed : Forall (keyed bk Known) (dw_states w);
    w_sorted : ksorted (dw_states w);
    w_bk : dw_burnkey w = bk;
    w_cfg : cfg_ok (dw_subs w);
    w_dests : Forall (dests_in Known) (dw_subs w);
    w_unb : forall d, 0 <= wunbooked w d }.

  Lemma inv_any_bank sts b b' : bk_bal b' = bk_bal b -> bk_burned b' = bk_burned b -> inv sts b -> inv sts b'.
  Proof. intros E1 E2 [A B C D0 E F]. constructor; try assumption; rewrite ?E1, ?E2; assumption. Qed.

  (* one BeginBlock of the distributor, whatever bank calls fail: it never panics, the world invariant is
     kept, and if the configuration's last MAIN occurrence is a source the books equal the main balance *)
  Theorem block_keeps_books w faults :
    winv w ->
    exists w' evs n, dist_begin_block w faults = Ok (w', evs, n) /\ winv w' /\ dw_subs w' = dw_subs w /\
      (booked_after false (dw_subs w) = true -> Books w').
  Proof.
    intros [Hi Hp Hk Hs Hbk [Hc1 Hc2] Hd Hu]. unfold dist_begin_block.
    set (b0 := {| bk_bal := dw_bal w; bk_burned := dw_burned w; bk_faults := faults; bk_calls := 0 |}).
    assert (Hi0 : inv (dw_states w) b0) by (eapply inv_any_bank; [| |exact Hi]; reflexivity).
    destruct (block_books (dw_subs w) (dw_states w) b0 (dw_burnkey w) Hi0 Hp (conj Hc1 Hc2) Hu)
      as (sts1 & b1 & evs & sts2 & b2 & E1 & E2 & Hi2 & Hp2 & Hsig & Hu2 & Hz2).
    rewrite E1, E2. eexists _, evs, (bk_calls b2). split; [reflexivity|].
    rewrite Hbk in E1.
    pose proof (evolves_run_subs Known bk _ _ _ _ _ _ _ E1 Hd) as Hev.
    destruct (evolves_keys Known bk Known Known_bk key_inj (fun a H => H) _ _ Hev Hk (ksorted_NoDup _ Hs)) as (Hk1 & Hn1 & nk & Hpre).
    pose proof (same_sig_keys _ _ Hsig) as Hkeys2.
    assert (Hk2 : Forall (keyed bk Known) sts2) by (eapply same_sig_keyed; eassumption).
    destruct (store_all_perm sts2 (dw_states w) nk Hs) as [Hs' Hperm]; [rewrite Hkeys2; exact Hpre | rewrite Hkeys2; exact Hn1|].
    assert (Hperm' : Permutation sts2 (store_all sts2 (dw_states w))) by (apply Permutation_sym; exact Hperm).
    assert (Hunb : forall d, unbooked (store_all sts2 (dw_states w)) b2 d = unbooked sts2 b2 d).
    { intros d. unfold unbooked. rewrite (remsum_perm d _ _ Hperm). reflexivity. }
    split; [|split; [reflexivity|]].
    - constructor; cbn [dw_states dw_subs dw_bal dw_burned dw_burnkey].
      + destruct Hi2 as [A B C D0 E F]. constructor; cbn [bank_of bk_bal bk_burned]; try assumption.
        * eapply Permutation_Forall; eassumption.
        * eapply Permutation_Forall; eassumption.
        * eapply Permutation_Forall; eassumption.
      + eapply Permutation_Forall; eassumption.
      + eapply Permutation_Forall; eassumption.
      + exact Hs'.
      + exact Hbk.
      + split; assumption.
      + exact Hd.
      + intros d. unfold wunbooked, bank_of; cbn [dw_states dw_bal dw_burned]. specialize (Hu2 d). rewrite <- (Hunb d) in Hu2.
        unfold unbooked, mainbal in *. cbn [bk_bal] in *. exact Hu2.
    - intros Hb d. unfold wunbooked, bank_of; cbn [dw_states dw_bal dw_burned]. specialize (Hz2 Hb d). rewrite <- (Hunb d) in Hz2.
      unfold unbooked, mainbal in *. cbn [bk_bal] in *. exact Hz2.
  Qed.
  (* coins arriving between blocks (minted coins, fees, transfers) *)
  Definition good_inflow (c : dcoins) : Prop := dc_wf c /\ forall d, 0 <= dc_amt d c.

  Lemma inflow_keeps_winv w a c : winv w -> good_inflow c -> winv (dist_inflow w a c).
  Proof.
    intros [Hi Hp Hk Hs Hbk Hc Hd Hu] [Hcw Hcn]. destruct Hi as [A B C D0 E F].
    assert (Hnew : dc_wf (dc_add (bal_of (dw_bal w) a) c)) by (apply dc_add_wf; [apply D0 | exact Hcw]).
    assert (Hamt : forall d, dc_amt d (dc_add (bal_of (dw_bal w) a) c) = dc_amt d (bal_of (dw_bal w) a) + dc_amt d c)
      by (intros d; apply dc_add_amt; [apply D0 | exact Hcw]).
    constructor; cbn [dist_inflow dw_states dw_subs dw_bal dw_burned dw_burnkey]; try assumption.
    - constructor; cbn [bank_of bk_bal bk_burned dw_bal dw_burned dw_states]; try assumption.
      + apply bal_wf_aset; assumption.
      + apply bal_nonneg_aset; [exact E|]. intros d. rewrite Hamt. specialize (E a d). specialize (Hcn d). cbn [bank_of bk_bal] in E. lia.
    - intros d. specialize (Hu d). unfold wunbooked, unbooked, mainbal, bank_of, dist_inflow in *. cbn [bk_bal dw_bal dw_states] in *.
      destruct (Z.eq_dec a MAINADDR) as [->|Hne].
      + rewrite bal_of_aset_same, Hamt. specialize (Hcn d). pose proof P_pos. nia.
      + rewrite bal_of_aset_other by (intros E0; apply Hne; symmetry; exact E0). exact Hu.
  Qed.

  (* after every block of a history of inflows and blocks, the books equal the main balance *)
  Fixpoint books_after_every_block (w : dworld) (ops : list dop) : Prop :=
    match ops with
    | [] => True
    | DInflow a c :: t => books_after_every_block (dist_inflow w a c) t
    | DSetSubs subs :: t => books_after_every_block (dist_set_subs w subs) t
    | DBlock faults :: t =>
        match dist_begin_block w faults with
        | Ok (w', _, _) => Books w' /\ books_after_every_block w' t
        | _ => False
        end
    end.
  (* a parameter update is good when the new configuration is one the invariant admits: well-formed, its destinations among
     the known accounts, and every sub-distributor's input consumed by a later one (booked_after) *)
  Definition good_subs (subs : list subdist) : Prop :=
    cfg_ok subs /\ Forall (dests_in Known) subs /\ booked_after false subs = true.
  Definition good_op (o : dop) : Prop :=
    match o with DInflow _ c => good_inflow c | DBlock _ => True | DSetSubs subs => good_subs subs end.

  Lemma set_subs_keeps_winv w subs : winv w -> cfg_ok subs -> Forall (dests_in Known) subs -> winv (dist_set_subs w subs).
  Proof. intros [A B C D0 E F G H] Hc Hd. constructor; cbn [dist_set_subs dw_states dw_subs dw_bal dw_burned dw_burnkey]; assumption. Qed.

  Theorem history_keeps_books ops : forall w,
    winv w -> booked_after false (dw_subs w) = true -> Forall good_op ops -> books_after_every_block w ops.
  Proof.
    induction ops as [|o t IH]; intros w Hw Hb Hg; [exact I|]. inversion Hg as [|? ? Ho Ht]; subst.
    destruct o as [a c|faults|subs]; cbn [books_after_every_block].
    - apply IH; [apply inflow_keeps_winv; assumption | exact Hb | exact Ht].
    - destruct (block_keeps_books w faults Hw) as (w' & evs & n & E & Hw' & Hsubs & Hbooks). rewrite E.
      split; [apply Hbooks; exact Hb|]. apply IH; [exact Hw' | rewrite Hsubs; exact Hb | exact Ht].
    - destruct Ho as (Hc & Hd & Hb'). apply IH; [apply set_subs_keeps_winv; assumption | exact Hb' | exact Ht].
  Qed.
End World.
