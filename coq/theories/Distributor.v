(* Distributor.v — executable model of x/cfedistributor: BeginBlocker, PrepareCoinsToDistribute
   (main / module / base / internal sources, prepareLeftCoinToDistribute), StartDistributionProcess,
   SendCoinsFromStates over a small bank with a fault oracle (one bit per bank call, in call order).
   Transcribed from x/cfedistributor/abci.go and keeper/distribution.go; DecCoins / Coins
   operations from cosmos-sdk types/dec_coin.go.  Definitions only. *)
From C4E Require Export Base Minter.
Open Scope Z_scope.

(* ---------------------------------------------------------------- DecCoins ---------------- *)
(* sorted by denomination, no zero entries (the SDK's canonical form); amounts: Dec or Int *)
Definition dcoins := list (Z * Z).

Fixpoint dc_amt (d : Z) (c : dcoins) : Z :=
  match c with [] => 0 | (d', v) :: t => if d =? d' then v else dc_amt d t end.

(* DecCoins.Add / Coins.Add on canonical lists: merge, drop zeros *)
Fixpoint dc_add (a : dcoins) : dcoins -> dcoins :=
  fix go (b : dcoins) : dcoins :=
    match a, b with
    | [], _ => b
    | _, [] => a
    | (da, va) :: ta, (db, vb) :: tb =>
        if da <? db then (da, va) :: dc_add ta b
        else if db <? da then (db, vb) :: go tb
        else if va + vb =? 0 then dc_add ta tb else (da, va + vb) :: dc_add ta tb
    end.

Definition dc_neg (a : dcoins) : dcoins := map (fun e => (fst e, - snd e)) a.
Definition dc_any_neg (a : dcoins) : bool := existsb (fun e => snd e <? 0) a.

(* DecCoins.Sub: panics ("negative coin amount") when any result is negative *)
Definition dc_sub (a b : dcoins) : outcome dcoins :=
  let r := dc_add a (dc_neg b) in if dc_any_neg r then Panic else Ok r.

Definition dc_is_zero (a : dcoins) : bool := match a with [] => true | _ => false end.   (* canonical: no zero entries *)
Definition dc_all_positive (a : dcoins) : bool := negb (dc_is_zero a) && forallb (fun e => 0 <? snd e) a.

(* DecCoins.MulDecTruncate: zero results are dropped *)
Definition dc_mul_trunc (a : dcoins) (share : Z) : dcoins :=
  flat_map (fun e => let v := dec_mul_trunc (snd e) share in if v =? 0 then [] else [(fst e, v)]) a.

(* DecCoins.TruncateDecimal: (integer coins, decimal change), both canonical *)
Definition dc_trunc (a : dcoins) : dcoins * dcoins :=
  (flat_map (fun e => let i := chop_trunc (snd e) in if i =? 0 then [] else [(fst e, i)]) a,
   flat_map (fun e => let r := snd e - chop_trunc (snd e) * P in if r =? 0 then [] else [(fst e, r)]) a).

Definition dc_any_gte1 (a : dcoins) : bool := existsb (fun e => P <=? snd e) a.
Definition dc_of_coins (a : dcoins) : dcoins := map (fun e => (fst e, snd e * P)) a.   (* NewDecCoinsFromCoins *)

(* calculatePercentage *)
Definition calc_share (share : Z) (coins : dcoins) : dcoins :=
  if dc_all_positive coins then dc_mul_trunc coins share else [].

(* ---------------------------------------------------------------- configuration ----------- *)
(* account types *)
Definition T_MAIN : Z := 0.  Definition T_INTERNAL : Z := 1.  Definition T_MODULE : Z := 2.  Definition T_BASE : Z := 3.

Record dacct := { da_type : Z; da_id : Z; da_key : Z; da_addr : Z }.
  (* da_id: the Id string (interned; 0 = ""); da_key: rank of the state key "Type-Id" in store order;
     da_addr: bank address of a module / base account (the main account is address 0) *)
Definition MAINADDR : Z := 0.

Record dshare := { sh_name : Z; sh_share : Z; sh_dest : dacct }.
Record subdist := { sd_name : Z; sd_sources : list dacct; sd_primary : dacct; sd_burn : Z; sd_shares : list dshare }.

Record dstate := { st_acc : option dacct; st_burn : bool; st_key : Z; st_rem : dcoins }.

Record dworld := {
  dw_subs : list subdist;
  dw_states : list dstate;                 (* store order *)
  dw_bal : list (Z * dcoins);              (* address -> integer coins (canonical) *)
  dw_burned : dcoins;                      (* total burned so far (supply decrease) *)
  dw_burnkey : Z }.                        (* rank of the burn state's key in store order *)

Definition bal_of (b : list (Z * dcoins)) (a : Z) : dcoins := match aget a b with Some c => c | None => [] end.

(* ---------------------------------------------------------------- state lookup ------------ *)
(* findAccountState: first state whose account Id equals the account's Id (type is NOT compared);
   a state without account (imported burn state) makes the real code dereference nil *)
Fixpoint find_account_state (sts : list dstate) (id : Z) (pos : nat) : outcome (option nat) :=
  match sts with
  | [] => Ok None
  | s :: t => match st_acc s with
              | None => Panic
              | Some a => if da_id a =? id then Ok (Some pos) else find_account_state t id (S pos)
              end
  end.

Fixpoint find_burn_state (sts : list dstate) (pos : nat) : option nat :=
  match sts with [] => None | s :: t => if st_burn s then Some pos else find_burn_state t (S pos) end.

Fixpoint upd_state (sts : list dstate) (pos : nat) (f : dstate -> dstate) : list dstate :=
  match sts, pos with
  | [], _ => []
  | s :: t, O => f s :: t
  | s :: t, S k => s :: upd_state t k f
  end.

Definition set_rem (r : dcoins) (s : dstate) : dstate :=
  {| st_acc := st_acc s; st_burn := st_burn s; st_key := st_key s; st_rem := r |}.
Definition add_rem (r : dcoins) (s : dstate) : dstate := set_rem (dc_add (st_rem s) r) s.

Definition rem_sum (sts : list dstate) : dcoins := fold_left (fun acc s => dc_add acc (st_rem s)) sts [].

(* ---------------------------------------------------------------- bank with faults -------- *)
Record bank := { bk_bal : list (Z * dcoins); bk_burned : dcoins; bk_faults : list bool; bk_calls : Z }.

Definition next_fault (b : bank) : bool * bank :=
  match bk_faults b with
  | [] => (false, {| bk_bal := bk_bal b; bk_burned := bk_burned b; bk_faults := []; bk_calls := bk_calls b + 1 |})
  | f :: t => (f, {| bk_bal := bk_bal b; bk_burned := bk_burned b; bk_faults := t; bk_calls := bk_calls b + 1 |})
  end.

(* x/bank subUnlockedCoins debits denomination by denomination and returns at the first one that is
   not covered; outside a cached context (BeginBlock) the earlier debits persist.  [partial_debit]
   returns the balance after the debits that went through and whether all of them did. *)
Fixpoint partial_debit (have : dcoins) (c : dcoins) : dcoins * bool :=
  match c with
  | [] => (have, true)
  | (d, v) :: t => if dc_amt d have <? v then (have, false)
                   else partial_debit (dc_add have [(d, - v)]) t
  end.

(* a failed bank call: an injected / recipient-side failure changes nothing; an insufficient-funds
   failure leaves the partial debit behind *)
Definition failed_debit (b : bank) (from : Z) (c : dcoins) : bank :=
  let '(have', all_ok) := partial_debit (bal_of (bk_bal b) from) c in
  if all_ok then b
  else {| bk_bal := aset from have' (bk_bal b); bk_burned := bk_burned b; bk_faults := bk_faults b; bk_calls := bk_calls b |}.

(* a transfer of integer coins; fails when the oracle says so *)
Definition transfer (b : bank) (from to : Z) (c : dcoins) : bool * bank :=
  let '(f, b1) := next_fault b in
  if f then (false, failed_debit b1 from c)
  else
    let bal1 := aset from (dc_add (bal_of (bk_bal b1) from) (dc_neg c)) (bk_bal b1) in      (* subtract, then add: a self-transfer is a no-op *)
    (true, {| bk_bal := aset to (dc_add (bal_of bal1 to) c) bal1;
              bk_burned := bk_burned b1; bk_faults := bk_faults b1; bk_calls := bk_calls b1 |}).

Definition burn (b : bank) (from : Z) (c : dcoins) : bool * bank :=
  let '(f, b1) := next_fault b in
  if f then (false, failed_debit b1 from c)
  else (true, {| bk_bal := aset from (dc_add (bal_of (bk_bal b1) from) (dc_neg c)) (bk_bal b1);
                 bk_burned := dc_add (bk_burned b1) c; bk_faults := bk_faults b1; bk_calls := bk_calls b1 |}).

(* ---------------------------------------------------------------- PrepareCoinsToDistribute - *)
(* prepareLeftCoinToDistribute: the source's own recorded remains are re-queued *)
Definition prepare_left (coins : dcoins) (src : dacct) (sts : list dstate) : outcome (dcoins * list dstate) :=
  match find_account_state sts (da_id src) 0 with
  | Panic => Panic | Err => Err
  | Ok None => Ok (coins, sts)
  | Ok (Some pos) =>
      let r := st_rem (nth pos sts {| st_acc := None; st_burn := false; st_key := 0; st_rem := [] |}) in
      if dc_is_zero r then Ok (coins, sts)
      else Ok (dc_add coins r, upd_state sts pos (set_rem []))
  end.

Definition prepare_source (src : dacct) (sts : list dstate) (b : bank) : outcome (dcoins * list dstate * bank) :=
  if da_type src =? T_MAIN then
    let coins := dc_of_coins (bal_of (bk_bal b) MAINADDR) in
    if dc_is_zero coins then Ok ([], sts, b)
    else match dc_sub coins (rem_sum sts) with
         | Ok c => Ok (c, sts, b) | Err => Err | Panic => Panic
         end
  else
    let swept : dcoins * bank :=
      if da_type src =? T_INTERNAL then ([], b)
      else
        let have := bal_of (bk_bal b) (da_addr src) in
        if dc_is_zero have then ([], b)
        else let '(ok, b1) := transfer b (da_addr src) MAINADDR have in
             if ok then (dc_of_coins have, b1) else ([], b1) in     (* failed sweep: nil coins; the left-over is still re-queued *)
    match prepare_left (fst swept) src sts with
    | Ok (c, sts') => Ok (c, sts', snd swept) | Err => Err | Panic => Panic
    end.

Fixpoint prepare_all (srcs : list dacct) (sts : list dstate) (b : bank) (acc : dcoins) : outcome (dcoins * list dstate * bank) :=
  match srcs with
  | [] => Ok (acc, sts, b)
  | s :: t => match prepare_source s sts b with
              | Ok (c, sts', b') => prepare_all t sts' b' (if dc_is_zero c then acc else dc_add acc c)
              | Err => Err | Panic => Panic
              end
  end.

(* ---------------------------------------------------------------- StartDistributionProcess - *)
(* events: (kind 1 = Distribution / 2 = DistributionBurn, share name, amount) *)
Definition devent := (Z * Z * dcoins)%type.

Definition add_share_to_account (sts : list dstate) (dest : dacct) (share : dcoins) : outcome (list dstate) :=
  match find_account_state sts (da_id dest) 0 with
  | Panic => Panic | Err => Err
  | Ok (Some pos) => Ok (upd_state sts pos (add_rem share))
  | Ok None => Ok (sts ++ [{| st_acc := Some dest; st_burn := false; st_key := da_key dest; st_rem := share |}])
  end.

Definition EMPTY_ACCT : dacct := {| da_type := -1; da_id := 0; da_key := 0; da_addr := -1 |}.

Definition add_share_to_burn (sts : list dstate) (burnkey : Z) (share : dcoins) : list dstate :=
  match find_burn_state sts 0 with
  | Some pos => upd_state sts pos (add_rem share)
  | None => sts ++ [{| st_acc := Some EMPTY_ACCT; st_burn := true; st_key := burnkey; st_rem := share |}]
  end.

Fixpoint distribute_shares (shares : list dshare) (inflow : dcoins) (sts : list dstate) (dflt : dcoins) (evs : list devent)
  : outcome (list dstate * dcoins * list devent) :=
  match shares with
  | [] => Ok (sts, dflt, evs)
  | sh :: t =>
      if da_type (sh_dest sh) =? T_MAIN then distribute_shares t inflow sts dflt evs
      else
        let c := calc_share (sh_share sh) inflow in
        match dc_sub dflt c with
        | Panic => Panic | Err => Err
        | Ok dflt' =>
            if dc_is_zero c then distribute_shares t inflow sts dflt' evs
            else match add_share_to_account sts (sh_dest sh) c with
                 | Ok sts' => distribute_shares t inflow sts' dflt' (evs ++ [(1, sh_name sh, c)])
                 | Err => Err | Panic => Panic
                 end
        end
  end.

Definition PRIMARY_NAME : Z := -1.

Definition start_distribution (sd : subdist) (inflow : dcoins) (sts : list dstate) (burnkey : Z)
  : outcome (list dstate * list devent) :=
  match distribute_shares (sd_shares sd) inflow sts inflow [] with
  | Panic => Panic | Err => Err
  | Ok (sts1, dflt1, evs1) =>
      let cb := calc_share (sd_burn sd) inflow in
      match dc_sub dflt1 cb with
      | Panic => Panic | Err => Err
      | Ok dflt2 =>
          let '(sts2, burn_ev) := if dc_is_zero cb then (sts1, [])
                                  else (add_share_to_burn sts1 burnkey cb, [(2, 0, cb)]) in
          if da_type (sd_primary sd) =? T_MAIN then Ok (sts2, evs1 ++ burn_ev)
          else match add_share_to_account sts2 (sd_primary sd) dflt2 with
               | Ok sts3 => Ok (sts3, evs1 ++ [(1, PRIMARY_NAME, dflt2)] ++ burn_ev)     (* events: distributions, then the burn *)
               | Err => Err | Panic => Panic
               end
      end
  end.

(* ---------------------------------------------------------------- SendCoinsFromStates ----- *)
Definition payout (s : dstate) (b : bank) : outcome (dstate * bank) :=
  match st_acc s with
  | None => Panic                                                  (* state.Account.Type on a nil account *)
  | Some a =>
      if negb (da_type a =? T_INTERNAL) && dc_any_gte1 (st_rem s) then
        let '(to_send, change) := dc_trunc (st_rem s) in
        let '(ok, b1) := if st_burn s then burn b MAINADDR to_send else transfer b MAINADDR (da_addr a) to_send in
        Ok (if ok then set_rem change s else s, b1)
      else Ok (s, b)
  end.

Fixpoint payout_all (sts : list dstate) (b : bank) : outcome (list dstate * bank) :=
  match sts with
  | [] => Ok ([], b)
  | s :: t => match payout s b with
              | Ok (s', b1) => match payout_all t b1 with
                               | Ok (t', b2) => Ok (s' :: t', b2) | Err => Err | Panic => Panic end
              | Err => Err | Panic => Panic
              end
  end.

(* the store keeps one state per key, iterated in key order *)
Fixpoint store_insert (s : dstate) (l : list dstate) : list dstate :=
  match l with
  | [] => [s]
  | x :: t => if st_key s <? st_key x then s :: l
              else if st_key s =? st_key x then s :: t
              else x :: store_insert s t
  end.
Definition store_all (sts : list dstate) (store : list dstate) : list dstate := fold_left (fun acc s => store_insert s acc) sts store.

(* ---------------------------------------------------------------- BeginBlocker ------------ *)
Fixpoint run_subs (subs : list subdist) (sts : list dstate) (b : bank) (burnkey : Z) (evs : list (Z * list devent))
  : outcome (list dstate * bank * list (Z * list devent)) :=
  match subs with
  | [] => Ok (sts, b, evs)
  | sd :: t =>
      match prepare_all (sd_sources sd) sts b [] with
      | Panic => Panic | Err => Err
      | Ok (inflow, sts1, b1) =>
          if dc_is_zero inflow then run_subs t sts1 b1 burnkey evs
          else match start_distribution sd inflow sts1 burnkey with
               | Ok (sts2, e) => run_subs t sts2 b1 burnkey (evs ++ [(sd_name sd, (0, 0, inflow) :: e)])
               | Err => Err | Panic => Panic
               end
      end
  end.

Definition dist_begin_block (w : dworld) (faults : list bool) : outcome (dworld * list (Z * list devent) * Z) :=
  let b0 := {| bk_bal := dw_bal w; bk_burned := dw_burned w; bk_faults := faults; bk_calls := 0 |} in
  match run_subs (dw_subs w) (dw_states w) b0 (dw_burnkey w) [] with
  | Panic => Panic | Err => Err
  | Ok (sts, b1, evs) =>
      match payout_all sts b1 with
      | Panic => Panic | Err => Err
      | Ok (sts', b2) =>
          Ok ({| dw_subs := dw_subs w; dw_states := store_all sts' (dw_states w); dw_bal := bk_bal b2;
                 dw_burned := bk_burned b2; dw_burnkey := dw_burnkey w |}, evs, bk_calls b2)
      end
  end.

(* external inflow between blocks: coins arriving at an address *)
Definition dist_inflow (w : dworld) (a : Z) (c : dcoins) : dworld :=
  {| dw_subs := dw_subs w; dw_states := dw_states w; dw_bal := aset a (dc_add (bal_of (dw_bal w) a) c) (dw_bal w);
     dw_burned := dw_burned w; dw_burnkey := dw_burnkey w |}.

(* ---------------------------------------------------------------- observation ------------- *)
Definition obs_coins (denoms : list Z) (c : dcoins) : list Z := map (fun d => dc_amt d c) denoms.

Definition obs_dworld (w : dworld) (addrs denoms : list Z) : list Z :=
  Z.of_nat (length (dw_states w))
  :: flat_map (fun s => st_key s :: b2z (st_burn s) :: obs_coins denoms (st_rem s)) (dw_states w)
  ++ flat_map (fun a => obs_coins denoms (bal_of (dw_bal w) a)) addrs
  ++ obs_coins denoms (dw_burned w).

Definition real_events (e : Z * list devent) : list devent := filter (fun x => negb (fst (fst x) =? 0)) (snd e).  (* kind 0 = the inflow, not an event *)

Definition obs_events (denoms : list Z) (evs : list (Z * list devent)) : list Z :=
  let groups := filter (fun e => match real_events e with [] => false | _ => true end) evs in
  Z.of_nat (length groups)
  :: flat_map (fun e => fst e :: Z.of_nat (length (real_events e))
                        :: flat_map (fun x => fst (fst x) :: snd (fst x) :: obs_coins denoms (snd x)) (real_events e)) groups.

(* a parameter update between blocks (Keeper.SetParams after Params.Validate, modelled in Params.v): the configuration is
   replaced, the stored states and every balance stay as they are *)
Definition dist_set_subs (w : dworld) (subs : list subdist) : dworld :=
  {| dw_subs := subs; dw_states := dw_states w; dw_bal := dw_bal w; dw_burned := dw_burned w; dw_burnkey := dw_burnkey w |}.

Inductive dop := DInflow (a : Z) (c : dcoins) | DBlock (faults : list bool) | DSetSubs (subs : list subdist).

Fixpoint check_dops (w : dworld) (addrs denoms : list Z) (ops : list (dop * list Z)) (i : Z) : option (Z * list Z) :=
  match ops with
  | [] => None
  | (DInflow a c, _) :: t => check_dops (dist_inflow w a c) addrs denoms t (i + 1)
  | (DSetSubs subs, _) :: t => check_dops (dist_set_subs w subs) addrs denoms t (i + 1)
  | (DBlock faults, expected) :: t =>
      match dist_begin_block w faults with
      | Ok (w', evs, calls) =>
          let got := 1 :: calls :: obs_events denoms evs ++ obs_dworld w' addrs denoms in
          if zlist_eqb got expected then check_dops w' addrs denoms t (i + 1) else Some (i, got)
      | _ => if zlist_eqb [-1] expected then None else Some (i, [-1])
      end
  end.

Record dcase := { dc_id : Z; dc_world : dworld; dc_addrs : list Z; dc_denoms : list Z; dc_ops : list (dop * list Z) }.

Definition check_dcase (c : dcase) : option (Z * Z * list Z) :=
  match check_dops (dc_world c) (dc_addrs c) (dc_denoms c) (dc_ops c) 0 with
  | None => None
  | Some (i, got) => Some (dc_id c, i, got)
  end.

Definition dmismatches (cs : list dcase) : list (Z * Z * list Z) :=
  flat_map (fun c => match check_dcase c with None => [] | Some m => [m] end) cs.
