(* Migrate.v — executable model of the parameter migrations the v1.2.0 upgrade runs (consensus version 2 -> 3):
   x/cfeminter/migrations/v3/params.go (legacy MinterConfig with a type string and two optional configurations ->
   Params with one Any configuration per minter), x/cfedistributor/migrations/v3/params.go and
   x/cfevesting/migrations/v3/params.go (parameters copied from the x/params subspace into the module store after
   validation), and the legacy validation x/cfeminter/types/legacy_minter.go MinterConfig.Validate.
   Also the v1.1.0 (version 1 -> 2) distributor migration of shares given in percent
   (x/cfedistributor/migrations/v2/params.go) and of the minter's periodic-reduction periods
   (x/cfeminter/migrations/v2/params.go).  Definitions only. *)
From C4E Require Export Minter Distributor Params.
Open Scope Z_scope.

(* ------------------------------------------------------------------ legacy minter (version 2) *)
(* lm_type: 0 "NO_MINTING", 1 "LINEAR_MINTING", 2 "EXPONENTIAL_STEP_MINTING", anything else: another string *)
Record lminter := { lm_seq : Z; lm_end : option Z; lm_type : Z;
                    lm_lin : option Z;                      (* LinearMinting{Amount} *)
                    lm_exp : option (Z * Z * Z) }.          (* ExponentialStepMinting{Amount, StepDuration ns, AmountMultiplier Dec} *)
Record lconfig := { lc_denom_nonempty : bool; lc_denom_ok : bool; lc_start : Z; lc_minters : list lminter }.

(* LegacyMinter.validate *)
Definition lminter_valid (m : lminter) : bool :=
  if lm_type m =? 0 then match lm_lin m, lm_exp m with None, None => true | _, _ => false end
  else if lm_type m =? 1 then
    match lm_exp m with Some _ => false | None =>
      match lm_end m with None => false | Some _ =>
        match lm_lin m with None => false | Some a => 0 <=? a end end end
  else if lm_type m =? 2 then
    match lm_lin m with Some _ => false | None =>
      match lm_exp m with None => false | Some (a, step, mult) => (0 <=? a) && (0 <=? mult) && (0 <? step) end end
  else false.

(* MinterConfig.Validate on the list sorted by sequence id (the code sorts in place; the harness passes the sorted list
   and checks that the implementation returns the minters in that order) *)
Fixpoint lminters_valid_from (prev_id prev_end : Z) (ms : list lminter) : bool :=
  match ms with
  | [] => false
  | [m] => (if prev_id =? 0 then 0 <? lm_seq m else lm_seq m =? prev_id + 1)
           && match lm_end m with None => true | Some _ => false end && lminter_valid m
  | m :: t => (if prev_id =? 0 then 0 <? lm_seq m else lm_seq m =? prev_id + 1)
              && match lm_end m with
                 | Some e => (prev_end <? e) && lminter_valid m && lminters_valid_from (lm_seq m) e t
                 | None => false end
  end.

Definition lconfig_valid (c : lconfig) : bool := lminters_valid_from 0 (lc_start c) (lc_minters c).

(* v3.MigrateParams: the configuration is chosen by the type string *)
Definition conv_minter (m : lminter) : minter :=
  {| m_seq := lm_seq m; m_end := lm_end m;
     m_cfg := if lm_type m =? 2 then match lm_exp m with Some (a, s, mu) => CExp a s mu | None => CNone end
              else if lm_type m =? 1 then match lm_lin m with Some a => CLinear a | None => CNone end
              else CNone |}.

Definition migrate_minter_v3 (c : lconfig) : outcome mparams :=
  if negb (lconfig_valid c) then Err
  else
    let p := {| mp_denom_ok := lc_denom_ok c; mp_start := lc_start c; mp_minters := map conv_minter (lc_minters c) |} in
    if lc_denom_nonempty c && lc_denom_ok c && params_valid p then Ok p else Err.

(* what the legacy parameters describe, read off the configurations that are present (not off the type string) *)
Definition legacy_view_minter (m : lminter) : minter :=
  {| m_seq := lm_seq m; m_end := lm_end m;
     m_cfg := match lm_exp m, lm_lin m with
              | Some (a, s, mu), _ => CExp a s mu
              | None, Some a => CLinear a
              | None, None => CNone end |}.
Definition legacy_view (c : lconfig) : mparams :=
  {| mp_denom_ok := lc_denom_ok c; mp_start := lc_start c; mp_minters := map legacy_view_minter (lc_minters c) |}.

(* ------------------------------------------------------------------ distributor / vesting (version 2 -> 3) *)
Definition migrate_distr_v3 (subs : list psub) : outcome (list psub) :=
  if dparams_valid subs then Ok subs else Err.

Definition migrate_vesting_params_v3 (denom_nonempty denom_ok : bool) : outcome bool :=
  if denom_nonempty && denom_ok then Ok true else Err.

(* the minter state needs no migration: LegacyMinterState and MinterState have the same wire format (checked by the
   harness: a state written with the legacy type is read back field by field through the keeper) *)

(* ------------------------------------------------------------------ version 1 -> 2 (v1.1.0) *)
(* shares and burn share were percentages: new share = Dec.Quo(percent, 100) (banker's rounding at 18 digits) *)
Definition share_from_percent (pct : Z) : Z := dec_quo pct (100 * P).

(* periodic reduction minter {MintPeriod s (int32), MintAmount, ReductionPeriodLength (int32), ReductionFactor}:
   Amount = MintAmount * ReductionPeriodLength, StepDuration = int32(MintPeriod * ReductionPeriodLength) seconds *)
Definition wrap32 (x : Z) : Z := (x + 2147483648) mod 4294967296 - 2147483648.
Definition SECOND : Z := 1000000000.
Definition conv_periodic (mint_period mint_amount rpl factor : Z) : mconfig :=
  CExp (mint_amount * rpl) (wrap32 (mint_period * rpl) * SECOND) factor.

(* ------------------------------------------------------------------ version 1 -> 2 store migrations (v1.1.0) *)
(* x/cfevesting/migrations/v2/store.go: a v1 pool {Vested, Withdrawn, LastModificationVested, LastModificationWithdrawn} becomes
   {InitiallyLocked := Vested; Withdrawn; Sent := LastModificationWithdrawn + Vested - Withdrawn - LastModificationVested} *)
Record v1pool := { v1_vested : Z; v1_withdrawn : Z; v1_lmv : Z; v1_lmw : Z }.
Definition migrate_v1_pool (p : v1pool) : Z * Z * Z :=          (* (initially locked, withdrawn, sent) *)
  (v1_vested p, v1_withdrawn p, v1_lmw p + v1_vested p - v1_withdrawn p - v1_lmv p).
(* what a v1 pool still locked: the amount at its last modification minus what was withdrawn since *)
Definition v1_currently_locked (p : v1pool) : Z := v1_lmv p - v1_lmw p.
(* vesting types: the free fraction did not exist; "Validators" (harness: name flag) gets 5%, all others 0 *)
Definition migrate_v1_vtype_free (is_validators : bool) : Z := if is_validators then 50000000000000000 else 0.

(* x/cfeminter/migrations/v2/store.go: Position (int32) becomes SequenceId (uint32); the state is refused when a counter is negative *)
Definition wrap_u32 (x : Z) : Z := x mod 4294967296.
Definition migrate_v1_mstate (position minted rem rem_prev : Z) : option (Z * Z * Z * Z) :=
  if (minted <? 0) || (rem_prev <? 0) || (rem <? 0) then None else Some (wrap_u32 position, minted, rem, rem_prev).

(* x/cfedistributor/migrations/v2/store.go: the burn state loses its account, everything else is copied *)
Definition migrate_v1_dstate (burn : bool) (acct_key : Z) : Z := if burn then 0 else acct_key.   (* 0: no account *)

(* the whole state store, x/cfedistributor/migrations/v2/store.go MigrateStore: every stored v1 state is read (in store order) and
   deleted, then written again under the key of the new state: Type-Id of its account when it has one with a non-empty id and
   type, the burn key otherwise; a later state with the same new key replaces an earlier one; State.Validate refuses negative
   amounts (the upgrade aborts); a non-burn state without account dereferences nil *)
Record v1dstate := { vd_burn : bool; vd_acct : option Z;   (* rank of the account's Type-Id key; None: no account *)
                     vd_keyable : bool;                      (* id and type both non-empty *)
                     vd_coins : list (Z * Z) }.
Definition v1d_newkey (bkey : Z) (s : v1dstate) : Z :=
  if vd_burn s then bkey else match vd_acct s with Some k => if vd_keyable s then k else bkey | None => bkey end.
Fixpoint dkset {A} (k : Z) (v : A) (l : list (Z * A)) : list (Z * A) :=
  match l with
  | [] => [(k, v)]
  | (k', v') :: t => if k <? k' then (k, v) :: l else if k =? k' then (k, v) :: t else (k', v') :: dkset k v t
  end.
Fixpoint migrate_v1_dstates (bkey : Z) (l : list v1dstate) (acc : list (Z * (bool * bool * list (Z * Z))))
  : outcome (list (Z * (bool * bool * list (Z * Z)))) :=
  match l with
  | [] => Ok acc
  | s :: t =>
      if negb (vd_burn s) && match vd_acct s with None => true | Some _ => false end then Panic
      else if existsb (fun c => snd c <? 0) (vd_coins s) then Err
      else migrate_v1_dstates bkey t (dkset (v1d_newkey bkey s) (vd_burn s, negb (vd_burn s), vd_coins s) acc)
  end.

(* ------------------------------------------------------------------ comparison with the implementation *)
Definition minter_code (m : minter) : list Z :=
  [m_seq m; match m_end m with Some e => e | None => -1 end] ++
  match m_cfg m with CNone => [0] | CLinear a => [1; a] | CExp a s mu => [2; a; s; mu] end.
Definition mparams_code (p : mparams) : list Z :=
  [mp_start p; Z.of_nat (length (mp_minters p))] ++ flat_map minter_code (mp_minters p).

Inductive gcase_body :=
| GMinter (c : lconfig)                       (* expected: [1; code of the stored new params] or [0] *)
| GDistr (subs : list psub)                   (* expected: [1; distr_code] or [0] *)
| GVestParams (nonempty ok : bool)            (* expected: [1] or [0] *)
| GPercent (pct : Z)                          (* expected: [share] *)
| GPeriodic (mp ma rpl f : Z)                 (* expected: [amount; step; mult] *)
| GV1Pools (ps : list v1pool)                 (* expected: per pool [locked; withdrawn; sent; currently locked after] *)
| GV1MState (position minted rem rem_prev : Z)  (* expected: [1; seq; minted; rem; rem_prev] or [0] *)
| GV1DStates (bkey : Z) (denoms : list Z) (l : list v1dstate).  (* expected: [1; n; per new state: key; burn; account present; amount per denom] | [0] | [-1] *)

Record gcase := { gc_id : Z; gc_body : gcase_body; gc_expected : list Z }.

Definition gcase_got (c : gcase) : list Z :=
  match gc_body c with
  | GMinter lc => match migrate_minter_v3 lc with Ok p => 1 :: mparams_code p | _ => [0] end
  | GDistr subs => match migrate_distr_v3 subs with Ok s => 1 :: distr_code s | _ => [0] end
  | GVestParams ne ok => match migrate_vesting_params_v3 ne ok with Ok _ => [1] | _ => [0] end
  | GPercent pct => [share_from_percent pct]
  | GPeriodic mp ma rpl f => match conv_periodic mp ma rpl f with CExp a s mu => [a; s; mu] | _ => [] end
  | GV1Pools ps => flat_map (fun p => let '(l, w, se) := migrate_v1_pool p in [l; w; se; l - se - w]) ps
  | GV1MState po mi re rp => match migrate_v1_mstate po mi re rp with Some (a, b, c, d) => [1; a; b; c; d] | None => [0] end
  | GV1DStates bkey denoms l =>
      match migrate_v1_dstates bkey l [] with
      | Ok st => 1 :: Z.of_nat (length st) ::
                 flat_map (fun e => fst e :: b2z (fst (fst (snd e))) :: b2z (snd (fst (snd e))) ::
                                    map (fun d => zsum (map snd (filter (fun c => fst c =? d) (snd (snd e))))) denoms) st
      | Err => [0] | Panic => [-1]
      end
  end.

Definition gmismatches (cs : list gcase) : list (Z * Z * list Z) :=
  flat_map (fun c => let got := gcase_got c in
                     if zlist_eqb got (gc_expected c) then [] else [(gc_id c, 0, got)]) cs.
