(* VestSupply.v — C01, vesting part: no vesting-world operation creates or destroys coins; the total
   of every denomination over all accounts is unchanged by every operation, accepted or rejected. *)
From C4E Require Import Base Vest VestFrame.
From Coq Require Import ZifyBool.
Open Scope Z_scope.

Definition wtotal (w : world) (d : Z) : Z := zsum (map (fun e => camt d (snd e)) (w_bal w)).

Lemma total_aset d a (v : coins) l :
  zsum (map (fun e => camt d (snd e)) (aset a v l)) =
  zsum (map (fun e => camt d (snd e)) l) - camt d (match aget a l with Some c => c | None => [] end) + camt d v.
Proof.
  induction l as [|[k c] t IH]; simpl.
  - unfold camt, zget. simpl. lia.
  - destruct (a =? k) eqn:E; simpl; [lia|]. rewrite IH. lia.
Qed.

Lemma camt_cset d d' v c : camt d' (cset d v c) = if d' =? d then v else camt d' c.
Proof.
  unfold camt, cset. destruct (d' =? d) eqn:E.
  - assert (d' = d) by lia. subst. apply zget_aset_same.
  - apply zget_aset_other. lia.
Qed.

Lemma wtotal_set_bal w a d v d' :
  wtotal (set_bal w a d v) d' = wtotal w d' + (if d' =? d then v - bal w a d else 0).
Proof.
  unfold wtotal, set_bal, bal. cbn [w_bal]. rewrite total_aset, camt_cset.
  destruct (aget a (w_bal w)) as [c|]; destruct (d' =? d) eqn:E; try lia.
  - assert (d' = d) by lia. subst. lia.
  - assert (d' = d) by lia. subst. unfold camt, zget; simpl. lia.
Qed.

Lemma wtotal_sub_unlocked c : forall w a w' d, sub_unlocked w a c = Some w' -> wtotal w' d = wtotal w d - coins_amt d c.
Proof.
  induction c as [|[d0 v] t IH]; simpl; intros w a w' d H.
  - inversion H; subst. unfold coins_amt; simpl. lia.
  - destruct (spendable w a d0 <? v); [discriminate|]. rewrite (IH _ _ _ d H), wtotal_set_bal.
    unfold coins_amt; simpl. destruct (d0 =? d) eqn:E; destruct (d =? d0) eqn:E2; lia.
Qed.

Lemma wtotal_add_coins c : forall w a d, wtotal (add_coins w a c) d = wtotal w d + coins_amt d c.
Proof.
  induction c as [|[d0 v] t IH]; simpl; intros w a d.
  - unfold coins_amt; simpl. lia.
  - rewrite IH, wtotal_set_bal. unfold coins_amt; simpl. destruct (d0 =? d) eqn:E; destruct (d =? d0) eqn:E2; lia.
Qed.

Lemma wtotal_ensure_account w a d : wtotal (ensure_account w a) d = wtotal w d.
Proof. unfold ensure_account. destruct (aget a (w_acc w)); reflexivity. Qed.

Lemma wtotal_send_coins w from to c w' d : send_coins w from to c = Some w' -> wtotal w' d = wtotal w d.
Proof.
  unfold send_coins. destruct (negb (coins_valid c)); [discriminate|].
  destruct (sub_unlocked w from c) as [w1|] eqn:E; [|discriminate].
  intros H; inversion H; subst. rewrite wtotal_ensure_account, wtotal_add_coins, (wtotal_sub_unlocked _ _ _ _ d E). lia.
Qed.

Lemma wtotal_m2a w to c w' d : send_module_to_account w to c = Some w' -> wtotal w' d = wtotal w d.
Proof. unfold send_module_to_account. destruct (blocked w to); [discriminate|]. apply wtotal_send_coins. Qed.

Lemma wtotal_withdraw_all w owner r d : withdraw_all w owner = Some r -> wtotal (r_world r) d = wtotal w d.
Proof.
  unfold withdraw_all. destruct (owner <? 0); [discriminate|].
  destruct (get_pools w owner) as [[|p0 pt]|]; try discriminate.
  destruct (0 <? total_withdrawable (w_now w) (p0 :: pt)).
  - destruct (send_module_to_account w owner _) as [w1|] eqn:E; [|discriminate].
    intros H; inversion H; subst. simpl. apply (wtotal_m2a _ _ _ _ d E).
  - intros H; inversion H; subst. reflexivity.
Qed.

Lemma wtotal_new_vesting_account w to amount free le ve w' d :
  new_vesting_account w to amount free le ve = Some w' -> wtotal w' d = wtotal w d.
Proof.
  unfold new_vesting_account. destruct (blocked w to); [discriminate|]. destruct (aget to (w_acc w)); [discriminate|].
  intros H. apply (wtotal_m2a _ _ _ _ d) in H. exact H.
Qed.

Lemma wtotal_split w from to c w' d : split_vesting_coins w from to c = Some w' -> wtotal w' d = wtotal w d.
Proof.
  unfold split_vesting_coins. destruct c as [|c0 ct]; [discriminate|].
  destruct (blocked w to); [discriminate|]. destruct (aget to (w_acc w)); [discriminate|].
  destruct (negb (coins_valid (c0 :: ct))); [discriminate|]. destruct (aget from (w_acc w)) as [x|]; [|discriminate].
  destruct (negb (a_kind x =? 2)); [discriminate|]. destruct (negb (all_lte_locked x (unix (w_now w)) (c0 :: ct))); [discriminate|].
  match goal with |- context [send_coins ?W ?F ?T ?C] => destruct (send_coins W F T C) as [w3|] eqn:Es; [|discriminate] end.
  apply (wtotal_send_coins _ _ _ _ _ d) in Es.
  destruct (aget from (w_traces w3)); intros H; inversion H; subst; exact Es.
Qed.

(* every operation of the vesting world — any message by any signer with any payload, accepted or
   rejected, delegation, passage of time — leaves the total of every denomination unchanged *)
Theorem step_conserves_coins w o d : wtotal (fst (step w o)) d = wtotal w d.
Proof.
  destruct o; simpl.
  - reflexivity.
  - destruct (create_pool w owner name amount duration vt) as [w'|] eqn:E; simpl; [|reflexivity].
    unfold create_pool in E. destruct (aget vt (w_vtypes w)); [|discriminate].
    destruct (name =? 0); [discriminate|]. destruct (amount <? 0); [discriminate|].
    destruct (duration <=? 0); [discriminate|]. destruct (owner <? 0); [discriminate|].
    destruct (bal w owner (w_denom w) <? amount); [discriminate|]. destruct (existsb _ _); [discriminate|].
    destruct (send_coins w owner MODULE (one_coin (w_denom w) amount)) as [w1|] eqn:Es; [|discriminate].
    inversion E; subst. apply (wtotal_send_coins _ _ _ _ _ d Es).
  - destruct (withdraw_all w owner) as [r|] eqn:E; simpl; [|reflexivity]. apply (wtotal_withdraw_all _ _ _ d E).
  - destruct (send_to_vesting_account w owner to name amount restart) as [r|] eqn:E; simpl; [|reflexivity].
    unfold send_to_vesting_account in E.
    destruct (name =? 0); [discriminate|]. destruct (amount <? 0); [discriminate|]. destruct (owner =? to); [discriminate|].
    destruct (owner <? 0); [discriminate|]. destruct (to <? 0); [discriminate|].
    destruct (withdraw_all w owner) as [r0|] eqn:Ew; [|discriminate].
    destruct (get_pools (r_world r0) owner) as [[|p0 pt]|]; try discriminate.
    destruct (find_pool name (p0 :: pt)) as [p|]; [|discriminate].
    destruct (pool_currently_locked p <? amount); [discriminate|].
    destruct (aget (p_vtype p) (w_vtypes (r_world r0))) as [vt|]; [|discriminate].
    match type of E with context [match ?X with Some _ => _ | None => None end] => destruct X as [w2|] eqn:En; [|discriminate] end.
    inversion E; subst. simpl.
    assert (wtotal w2 d = wtotal (r_world r0) d) by (destruct restart; apply (wtotal_new_vesting_account _ _ _ _ _ _ _ d En)).
    unfold wtotal in *. simpl. rewrite H. apply (wtotal_withdraw_all _ _ _ d Ew).
  - destruct (create_vesting_account w from to c start end_) as [w'|] eqn:E; simpl; [|reflexivity].
    unfold create_vesting_account in E. destruct (existsb _ c); [discriminate|]. destruct (end_ <? start); [discriminate|].
    destruct (from <? 0); [discriminate|]. destruct (to <? 0); [discriminate|]. destruct (blocked w to); [discriminate|].
    destruct (aget to (w_acc w)); [discriminate|]. apply (wtotal_send_coins _ _ _ _ _ d E).
  - unfold split_vesting. destruct (negb (coins_valid c)); [reflexivity|]. destruct (from <? 0); [reflexivity|]. destruct (to <? 0); [reflexivity|].
    destruct (split_vesting_coins w from to c) as [w'|] eqn:E; simpl; [apply (wtotal_split _ _ _ _ _ d E)|reflexivity].
  - unfold move_available. destruct (from <? 0); [reflexivity|]. destruct (to <? 0); [reflexivity|].
    destruct (split_vesting_coins w from to _) as [w'|] eqn:E; simpl; [apply (wtotal_split _ _ _ _ _ d E)|reflexivity].
  - unfold move_by_denoms. destruct (from <? 0); [reflexivity|]. destruct (to <? 0); [reflexivity|].
    destruct denoms; [reflexivity|]. destruct (has_dup (z :: denoms)); [reflexivity|].
    destruct (split_vesting_coins w from to _) as [w'|] eqn:E; simpl; [apply (wtotal_split _ _ _ _ _ d E)|reflexivity].
  - destruct (delegate w a bonded amt) as [w'|] eqn:E; simpl; [|reflexivity].
    unfold delegate in E. cbv zeta in E. destruct (amt <=? 0); [discriminate|]. destruct (bal w a 0 <? amt); [discriminate|].
    inversion E; subst; clear E.
    match goal with |- wtotal (set_bal ?W2 _ _ _) _ = _ => set (w2 := W2) end.
    assert (Hw2 : wtotal w2 d = wtotal (set_bal w a 0 (bal w a 0 - amt)) d).
    { unfold w2. destruct (aget a (w_acc w)) as [x|]; [|reflexivity].
      destruct (a_kind x =? 2); reflexivity. }
    rewrite wtotal_set_bal, Hw2, wtotal_set_bal. destruct (d =? 0); lia.
Qed.

Theorem run_conserves_coins ops : forall w d, wtotal (run w ops) d = wtotal w d.
Proof.
  induction ops as [|o ops IH]; intros w d; [reflexivity|]. simpl. rewrite IH. apply step_conserves_coins.
Qed.
