(* Vest.v — executable model of x/cfevesting (pools, sends to new vesting accounts, direct
   vesting-account creation, split / move of vesting, lineage traces) over a small model of
   x/bank and x/auth continuous vesting accounts.  Transcribed from
     x/cfevesting/keeper/vesting.go, vesting_account_split.go, msg_server_*.go,
     cosmos-sdk x/auth/vesting/types/vesting_account.go, x/bank/keeper/{send,keeper}.go.
   Definitions only; proofs are in VestProofs.v / SplitProofs.v. *)
From C4E Require Export Base.
Open Scope Z_scope.

(* identifiers are integers chosen by the harness: addresses (0 = cfevesting module account,
   negative = string that is not valid bech32), denominations (rank order = byte order of the
   denom strings), pool and vesting-type names (0 = empty string). *)

Definition coins := list (Z * Z).           (* denom -> amount; absent = 0 *)
Definition camt (d : Z) (c : coins) : Z := zget d c.
Definition cset (d v : Z) (c : coins) : coins := aset d v c.

Definition NS : Z := 1000000000.
Definition unix (t_ns : Z) : Z := t_ns / NS.   (* time.Time.Unix() for times after 1970 *)

Record acct := {
  a_kind : Z;          (* 1 base, 2 continuous vesting, 3 module, 4 any other account type *)
  a_ov : coins; a_dv : coins; a_df : coins;
  a_start : Z; a_end : Z }.                     (* unix seconds *)

Definition base_acct : acct := {| a_kind := 1; a_ov := []; a_dv := []; a_df := []; a_start := 0; a_end := 0 |}.

Record pool := {
  p_name : Z; p_vtype : Z; p_lock_start : Z; p_lock_end : Z;   (* times in ns *)
  p_locked : Z; p_withdrawn : Z; p_sent : Z; p_genesis : bool }.

Record vtype := { vt_lockup : Z; vt_vesting : Z; vt_free : Z }.  (* durations ns; free: Dec *)

Record trace := { t_genesis : bool; t_from_pool : bool; t_from_acct : bool }.

Record world := {
  w_now : Z;                              (* block time, ns *)
  w_denom : Z;                            (* the vesting module's denom parameter *)
  w_bal : list (Z * coins);
  w_acc : list (Z * acct);
  w_pools : list (Z * list pool);         (* owner -> pools (store value order) *)
  w_vtypes : list (Z * vtype);
  w_traces : list (Z * trace);
  w_blocked : list Z }.

Definition MODULE : Z := 0.

(* ---------------------------------------------------------------- bank / auth ------------- *)
Definition bal (w : world) (a d : Z) : Z :=
  match aget a (w_bal w) with Some c => camt d c | None => 0 end.

Definition set_bal (w : world) (a d v : Z) : world :=
  let c := match aget a (w_bal w) with Some c => c | None => [] end in
  {| w_now := w_now w; w_denom := w_denom w; w_bal := aset a (cset d v c) (w_bal w);
     w_acc := w_acc w; w_pools := w_pools w; w_vtypes := w_vtypes w; w_traces := w_traces w;
     w_blocked := w_blocked w |}.

Definition set_acc (w : world) (a : Z) (x : acct) : world :=
  {| w_now := w_now w; w_denom := w_denom w; w_bal := w_bal w;
     w_acc := aset a x (w_acc w); w_pools := w_pools w; w_vtypes := w_vtypes w; w_traces := w_traces w;
     w_blocked := w_blocked w |}.

Definition set_pools (w : world) (o : Z) (ps : list pool) : world :=
  {| w_now := w_now w; w_denom := w_denom w; w_bal := w_bal w;
     w_acc := w_acc w; w_pools := aset o ps (w_pools w); w_vtypes := w_vtypes w; w_traces := w_traces w;
     w_blocked := w_blocked w |}.

Definition set_trace (w : world) (a : Z) (t : trace) : world :=
  {| w_now := w_now w; w_denom := w_denom w; w_bal := w_bal w;
     w_acc := w_acc w; w_pools := w_pools w; w_vtypes := w_vtypes w; w_traces := aset a t (w_traces w);
     w_blocked := w_blocked w |}.

Definition set_now (w : world) (t : Z) : world :=
  {| w_now := t; w_denom := w_denom w; w_bal := w_bal w;
     w_acc := w_acc w; w_pools := w_pools w; w_vtypes := w_vtypes w; w_traces := w_traces w;
     w_blocked := w_blocked w |}.

Definition blocked (w : world) (a : Z) : bool := existsb (Z.eqb a) (w_blocked w).

(* ContinuousVestingAccount.GetVestedCoins for one denomination with original vesting [ov] *)
Definition vested_amt (start end_ now_s ov : Z) : Z :=
  if now_s <=? start then 0
  else if end_ <=? now_s then ov
  else
    let s := dec_quo (dec_of_int (now_s - start)) (dec_of_int (end_ - start)) in
    dec_round_int (dec_mul (dec_of_int ov) s).

Definition vesting_amt (start end_ now_s ov : Z) : Z := ov - vested_amt start end_ now_s ov.

(* LockedCoinsFromVesting: vesting - min(vesting, delegated vesting) *)
Definition locked_amt (start end_ now_s ov dv : Z) : Z :=
  let v := vesting_amt start end_ now_s ov in v - Z.min v dv.

Definition acct_vesting (x : acct) (now_s d : Z) : Z :=
  if a_kind x =? 2 then vesting_amt (a_start x) (a_end x) now_s (camt d (a_ov x)) else 0.

Definition acct_locked (x : acct) (now_s d : Z) : Z :=
  if a_kind x =? 2 then locked_amt (a_start x) (a_end x) now_s (camt d (a_ov x)) (camt d (a_dv x)) else 0.

Definition locked (w : world) (a d : Z) : Z :=
  match aget a (w_acc w) with Some x => acct_locked x (unix (w_now w)) d | None => 0 end.

Definition spendable (w : world) (a d : Z) : Z := bal w a d - locked w a d.

(* x/bank SendCoins for a Coins value that is valid (strictly sorted, positive amounts):
   all-or-nothing per message thanks to the cache-wrapped execution. *)
Fixpoint coins_valid_from (lo : Z) (c : coins) : bool :=
  match c with
  | [] => true
  | (d, v) :: t => (lo <? d) && (0 <? v) && coins_valid_from d t
  end.
Definition coins_valid (c : coins) : bool := coins_valid_from (-1) c.   (* denom ids are >= 0 *)

Fixpoint sub_unlocked (w : world) (a : Z) (c : coins) : option world :=
  match c with
  | [] => Some w
  | (d, v) :: t =>
      if spendable w a d <? v then None
      else sub_unlocked (set_bal w a d (bal w a d - v)) a t
  end.

Fixpoint add_coins (w : world) (a : Z) (c : coins) : world :=
  match c with
  | [] => w
  | (d, v) :: t => add_coins (set_bal w a d (bal w a d + v)) a t
  end.

Definition ensure_account (w : world) (a : Z) : world :=
  match aget a (w_acc w) with Some _ => w | None => set_acc w a base_acct end.

Definition send_coins (w : world) (from to : Z) (c : coins) : option world :=
  if negb (coins_valid c) then None
  else match sub_unlocked w from c with
       | None => None
       | Some w1 => Some (ensure_account (add_coins w1 to c) to)
       end.

(* sdk.NewCoins(sdk.NewCoin(denom, amount)) for amount >= 0: the zero coin is dropped *)
Definition one_coin (d v : Z) : coins := if v =? 0 then [] else [(d, v)].

Definition send_module_to_account (w : world) (to : Z) (c : coins) : option world :=
  if blocked w to then None else send_coins w MODULE to c.

(* ---------------------------------------------------------------- pools ------------------- *)
Definition pool_currently_locked (p : pool) : Z := p_locked p - p_sent p - p_withdrawn p.

(* vesting.go CalculateWithdrawable *)
Definition withdrawable (now : Z) (p : pool) : Z :=
  if p_lock_end p <=? now then pool_currently_locked p else 0.

Definition pool_withdraw (now : Z) (p : pool) : pool :=
  {| p_name := p_name p; p_vtype := p_vtype p; p_lock_start := p_lock_start p; p_lock_end := p_lock_end p;
     p_locked := p_locked p; p_withdrawn := p_withdrawn p + withdrawable now p; p_sent := p_sent p;
     p_genesis := p_genesis p |}.

Definition pool_add_sent (p : pool) (x : Z) : pool :=
  {| p_name := p_name p; p_vtype := p_vtype p; p_lock_start := p_lock_start p; p_lock_end := p_lock_end p;
     p_locked := p_locked p; p_withdrawn := p_withdrawn p; p_sent := p_sent p + x;
     p_genesis := p_genesis p |}.

Definition get_pools (w : world) (o : Z) : option (list pool) := aget o (w_pools w).

Definition total_withdrawable (now : Z) (ps : list pool) : Z := zsum (map (withdrawable now) ps).

(* WithdrawAvailable events (after fix F3): one per pool that pays something, with its own amount *)
Fixpoint withdraw_events (now : Z) (ps : list pool) : list (Z * Z) :=
  match ps with
  | [] => []
  | p :: t => let x := withdrawable now p in
              if 0 <? x then (p_name p, x) :: withdraw_events now t else withdraw_events now t
  end.

(* result of a handler: the new world plus the values the response / events carry *)
Record result := { r_world : world; r_amount : Z; r_events : list (Z * Z) }.

(* Keeper.WithdrawAllAvailable *)
Definition withdraw_all (w : world) (owner : Z) : option result :=
  if owner <? 0 then None                                  (* bech32 parsing error *)
  else match get_pools w owner with
  | None => None
  | Some [] => None
  | Some ps =>
      let now := w_now w in
      let tot := total_withdrawable now ps in
      let ev := withdraw_events now ps in
      let ps' := map (pool_withdraw now) ps in
      let sent := if 0 <? tot
                  then send_module_to_account w owner (one_coin (w_denom w) tot)
                  else Some w in
      match sent with
      | None => None
      | Some w1 => Some {| r_world := set_pools w1 owner ps'; r_amount := tot; r_events := ev |}
      end
  end.

(* Keeper.CreateVestingPool / addVestingPool *)
Definition create_pool (w : world) (owner name amount duration vt : Z) : option world :=
  match aget vt (w_vtypes w) with
  | None => None
  | Some _ =>
    if name =? 0 then None
    else if amount <? 0 then None
    else if duration <=? 0 then None
    else if owner <? 0 then None
    else if bal w owner (w_denom w) <? amount then None
    else
      let ps := match get_pools w owner with Some ps => ps | None => [] end in
      if existsb (fun p => p_name p =? name) ps then None
      else
        let p := {| p_name := name; p_vtype := vt; p_lock_start := w_now w; p_lock_end := w_now w + duration;
                    p_locked := amount; p_withdrawn := 0; p_sent := 0; p_genesis := false |} in
        match send_coins w owner MODULE (one_coin (w_denom w) amount) with
        | None => None
        | Some w1 => Some (set_pools w1 owner (ps ++ [p]))
        end
  end.

(* the loop keeps the LAST pool with the given name *)
Fixpoint find_pool (name : Z) (ps : list pool) : option pool :=
  match ps with
  | [] => None
  | p :: t => match find_pool name t with
              | Some q => Some q
              | None => if p_name p =? name then Some p else None
              end
  end.

Fixpoint replace_last_pool (name : Z) (q : pool) (ps : list pool) : list pool :=
  match ps with
  | [] => []
  | p :: t => match find_pool name t with
              | Some _ => p :: replace_last_pool name q t
              | None => if p_name p =? name then q :: t else p :: t
              end
  end.

(* Keeper.newContinuousVestingAccount *)
Definition new_cva (w : world) (to : Z) (ov : coins) (start end_ : Z) : world :=
  set_acc w to {| a_kind := 2; a_ov := ov; a_dv := []; a_df := []; a_start := start; a_end := end_ |}.

(* Keeper.newVestingAccount *)
Definition new_vesting_account (w : world) (to amount free lock_end vesting_end : Z) : option world :=
  if blocked w to then None
  else match aget to (w_acc w) with
  | Some _ => None
  | None =>
      let dec_amount := dec_of_int amount in
      let ov := dec_trunc_int (dec_amount - dec_mul dec_amount free) in
      let start := if lock_end <? w_now w then w_now w else lock_end in
      let w1 := new_cva w to (one_coin (w_denom w) ov) (unix start) (unix vesting_end) in
      send_module_to_account w1 to (one_coin (w_denom w) amount)
  end.

(* Keeper.SendToNewVestingAccount *)
Definition send_to_vesting_account (w : world) (owner to name amount : Z) (restart : bool) : option result :=
  if name =? 0 then None
  else if amount <? 0 then None
  else if owner =? to then None
  else if owner <? 0 then None
  else if to <? 0 then None
  else match withdraw_all w owner with
  | None => None
  | Some r =>
    let w1 := r_world r in
    match get_pools w1 owner with
    | None => None
    | Some [] => None
    | Some ps =>
      match find_pool name ps with
      | None => None
      | Some p =>
        if pool_currently_locked p <? amount then None
        else match aget (p_vtype p) (w_vtypes w1) with
        | None => None
        | Some vt =>
          let now := w_now w1 in
          let created :=
            if restart
            then new_vesting_account w1 to amount (vt_free vt) (now + vt_lockup vt) (now + vt_lockup vt + vt_vesting vt)
            else new_vesting_account w1 to amount (vt_free vt) (p_lock_end p) (p_lock_end p) in
          match created with
          | None => None
          | Some w2 =>
            let ps' := replace_last_pool name (pool_add_sent p amount) ps in
            let w3 := set_pools w2 owner ps' in
            let w4 := set_trace w3 to {| t_genesis := false; t_from_pool := p_genesis p; t_from_acct := false |} in
            Some {| r_world := w4; r_amount := r_amount r; r_events := r_events r |}
          end
        end
      end
    end
  end.

(* Keeper.CreateVestingAccount *)
Definition create_vesting_account (w : world) (from to : Z) (c : coins) (start end_ : Z) : option world :=
  if existsb (fun dv => snd dv <? 0) c then None
  else if end_ <? start then None
  else if from <? 0 then None
  else if to <? 0 then None
  else if blocked w to then None
  else match aget to (w_acc w) with
  | Some _ => None
  | None => send_coins (new_cva w to c start end_) from to c
  end.

(* ---------------------------------------------------------------- split / move ------------ *)

(* one denomination of UnlockUnbondedContinuousVestingAccountCoins (after fix F1: QuoTruncate) *)
Definition unlock_ov (start end_ now_s ov u : Z) : Z :=
  let v := vesting_amt start end_ now_s ov in
  let diff := dec_trunc_int (dec_quo_trunc (dec_mul (dec_of_int u) (dec_of_int ov)) (dec_of_int v)) in
  let ov1 := ov - diff in
  if v - vesting_amt start end_ now_s ov1 <? u then ov1 - 1 else ov1.

Fixpoint unlock_all (start end_ now_s : Z) (ov : coins) (c : coins) : coins :=
  match c with
  | [] => ov
  | (d, u) :: t =>
      let ov' := if 0 <? u then cset d (unlock_ov start end_ now_s (camt d ov) u) ov else ov in
      unlock_all start end_ now_s ov' t
  end.

Definition all_lte_locked (x : acct) (now_s : Z) (c : coins) : bool :=
  forallb (fun dv => snd dv <=? acct_locked x now_s (fst dv)) c.

(* msg_server_split_vesting.go splitVestingCoins *)
Definition split_vesting_coins (w : world) (from to : Z) (c : coins) : option world :=
  match c with
  | [] => None
  | _ =>
    if blocked w to then None
    else match aget to (w_acc w) with
    | Some _ => None
    | None =>
      if negb (coins_valid c) then None
      else match aget from (w_acc w) with
      | None => None
      | Some x =>
        if negb (a_kind x =? 2) then None
        else
          let now_s := unix (w_now w) in
          if negb (all_lte_locked x now_s c) then None
          else
            let ov' := unlock_all (a_start x) (a_end x) now_s (a_ov x) c in
            let x' := {| a_kind := 2; a_ov := ov'; a_dv := a_dv x; a_df := a_df x;
                         a_start := a_start x; a_end := a_end x |} in
            let w1 := set_acc w from x' in
            let start := Z.max now_s (a_start x) in
            let w2 := new_cva w1 to c start (a_end x) in
            match send_coins w2 from to c with
            | None => None
            | Some w3 =>
              match aget from (w_traces w3) with
              | None => Some w3
              | Some tr => Some (set_trace w3 to {| t_genesis := false; t_from_pool := t_from_pool tr;
                                                    t_from_acct := t_genesis tr || t_from_acct tr |})
              end
            end
      end
    end
  end.

Definition split_vesting (w : world) (from to : Z) (c : coins) : option world :=
  if negb (coins_valid c) then None
  else if from <? 0 then None
  else if to <? 0 then None
  else split_vesting_coins w from to c.

(* bank LockedCoins of an account, as a normalised Coins value over the given denominations *)
Definition locked_coins (w : world) (a : Z) (denoms : list Z) : coins :=
  flat_map (fun d => one_coin d (locked w a d)) denoms.

(* [denoms_all]: every denomination the sender's original vesting mentions, ascending *)
Definition move_available (w : world) (from to : Z) (denoms_all : list Z) : option world :=
  if from <? 0 then None
  else if to <? 0 then None
  else split_vesting_coins w from to (locked_coins w from denoms_all).

Fixpoint has_dup (l : list Z) : bool :=
  match l with [] => false | x :: t => existsb (Z.eqb x) t || has_dup t end.

Fixpoint insert_coin (d v : Z) (c : coins) : coins :=
  match c with
  | [] => [(d, v)]
  | (d', v') :: t => if d <? d' then (d, v) :: c else (d', v') :: insert_coin d v t
  end.

(* denominations requested by name; id 0.. valid, the harness never sends empty / invalid names here *)
Definition move_by_denoms (w : world) (from to : Z) (denoms : list Z) : option world :=
  if from <? 0 then None
  else if to <? 0 then None
  else match denoms with
  | [] => None
  | _ =>
    if has_dup denoms then None
    else
      let c := fold_left (fun acc d => let v := locked w from d in
                                       if 0 <? v then insert_coin d v acc else acc) denoms [] in
      split_vesting_coins w from to c
  end.

(* ---------------------------------------------------------------- staking (delegation) ---- *)
(* bank DelegateCoins + BaseVestingAccount.TrackDelegation for the bond denom (= denom 0) *)
Definition delegate (w : world) (a bonded amt : Z) : option world :=
  let d := 0 in
  if amt <=? 0 then None
  else if bal w a d <? amt then None
  else
    let w1 := set_bal w a d (bal w a d - amt) in
    let w2 := match aget a (w_acc w1) with
      | Some x =>
        if a_kind x =? 2 then
          let v := acct_vesting x (unix (w_now w)) d in
          let dv := camt d (a_dv x) in
          let xx := Z.min (Z.max (v - dv) 0) amt in
          let yy := amt - xx in
          set_acc w1 a {| a_kind := 2; a_ov := a_ov x;
                          a_dv := if xx =? 0 then a_dv x else cset d (dv + xx) (a_dv x);
                          a_df := if yy =? 0 then a_df x else cset d (camt d (a_df x) + yy) (a_df x);
                          a_start := a_start x; a_end := a_end x |}
        else w1
      | None => w1 end in
    Some (set_bal w2 bonded d (bal w2 bonded d + amt)).

(* ---------------------------------------------------------------- operations -------------- *)
Inductive op :=
| OTime (t : Z)                                         (* next block time *)
| OCreatePool (owner name amount duration vt : Z)
| OWithdraw (owner : Z)
| OSend (owner to name amount : Z) (restart : bool)
| OCreateVA (from to : Z) (c : coins) (start end_ : Z)
| OSplit (from to : Z) (c : coins)
| OMove (from to : Z) (denoms_all : list Z)
| OMoveDenoms (from to : Z) (denoms : list Z)
| ODelegate (a bonded amt : Z).

(* the result code: 1 = success, 0 = error (state rolled back by the cache-wrapped execution) *)
Definition step (w : world) (o : op) : world * (Z * Z * list (Z * Z)) :=
  let ok (w' : world) := (w', (1, 0, [])) in
  let fail := (w, (0, 0, [])) in
  match o with
  | OTime t => ok (set_now w t)
  | OCreatePool owner name amount duration vt =>
      match create_pool w owner name amount duration vt with Some w' => ok w' | None => fail end
  | OWithdraw owner =>
      match withdraw_all w owner with
      | Some r => (r_world r, (1, r_amount r, r_events r)) | None => fail end
  | OSend owner to name amount restart =>
      match send_to_vesting_account w owner to name amount restart with
      | Some r => (r_world r, (1, 0, r_events r)) | None => fail end    (* the response carries no amount *)
  | OCreateVA from to c s e =>
      match create_vesting_account w from to c s e with Some w' => ok w' | None => fail end
  | OSplit from to c =>
      match split_vesting w from to c with Some w' => ok w' | None => fail end
  | OMove from to ds =>
      match move_available w from to ds with Some w' => ok w' | None => fail end
  | OMoveDenoms from to ds =>
      match move_by_denoms w from to ds with Some w' => ok w' | None => fail end
  | ODelegate a b amt =>
      match delegate w a b amt with Some w' => ok w' | None => fail end
  end.

Definition run (w : world) (ops : list op) : world := fold_left (fun w o => fst (step w o)) ops w.

(* ---------------------------------------------------------------- summaries --------------- *)
Definition tr_derived (t : trace) : bool := t_genesis t || t_from_pool t || t_from_acct t.

Definition vesting_of (w : world) (a : Z) : Z :=
  match aget a (w_acc w) with Some x => acct_vesting x (unix (w_now w)) (w_denom w) | None => 0 end.

Definition genesis_pools_amount (w : world) : Z :=
  zsum (map (fun e => zsum (map (fun p => if p_genesis p then pool_currently_locked p else 0) (snd e))) (w_pools w)).

(* grpc_query_vestings_summary.go createVestingsSummary: [all; in pools; in accounts; delegated] *)
Definition summary (w : world) (genesis_only : bool) : list Z :=
  let accs := filter (fun e => if genesis_only then tr_derived (snd e) else true) (w_traces w) in
  let v := zsum (map (fun e => vesting_of w (fst e)) accs) in
  let l := zsum (map (fun e => locked w (fst e) (w_denom w)) accs) in
  let p := if genesis_only then genesis_pools_amount w else bal w MODULE (w_denom w) in
  [v + p; p; v; v - l].

(* ---------------------------------------------------------------- observation ------------- *)
(* Canonical projection of the tracked part of the world, computed identically by the Go
   harness from the real application (bank / auth / vesting queries). *)
Definition obs_acct (w : world) (denoms : list Z) (a : Z) : list Z :=
  match aget a (w_acc w) with
  | None => 0 :: map (fun _ => 0) denoms ++ map (fun _ => 0) denoms ++ [0; 0]
  | Some x => a_kind x :: map (fun d => camt d (a_ov x)) denoms ++ map (fun d => camt d (a_dv x)) denoms
              ++ (if a_kind x =? 2 then [a_start x; a_end x] else [0; 0])
  end.

(* the last entry is what the VestingPools query reports as withdrawable for the pool *)
Definition obs_pool (now : Z) (p : pool) : list Z :=
  [p_name p; p_vtype p; p_lock_start p; p_lock_end p; p_locked p; p_withdrawn p; p_sent p; b2z (p_genesis p);
   withdrawable now p].

Definition obs_pools (w : world) (o : Z) : list Z :=
  match get_pools w o with
  | None => [-1]
  | Some ps => Z.of_nat (length ps) :: flat_map (obs_pool (w_now w)) ps
  end.

Definition obs_trace (w : world) (a : Z) : list Z :=
  match aget a (w_traces w) with
  | None => [0; 0; 0; 0]
  | Some t => [1; b2z (t_genesis t); b2z (t_from_pool t); b2z (t_from_acct t)]
  end.

Definition observe (w : world) (addrs denoms : list Z) : list Z :=
  flat_map (fun a => map (fun d => bal w a d) denoms ++ map (fun d => locked w a d) denoms
                     ++ obs_acct w denoms a ++ obs_pools w a ++ obs_trace w a) addrs
  ++ summary w false ++ summary w true.

Definition obs_out (o : Z * Z * list (Z * Z)) : list Z :=
  match o with (res, amt, evs) => res :: amt :: Z.of_nat (length evs) :: flat_map (fun e => [fst e; snd e]) evs end.

(* run a case: after every operation emit [obs_out ++ observe]; return the index of the first
   operation whose observation differs from the expected one, with the model's observation *)
Fixpoint check_ops (w : world) (addrs denoms : list Z) (ops : list (op * list Z)) (i : Z)
  : option (Z * list Z) :=
  match ops with
  | [] => None
  | (o, expected) :: t =>
      let '(w', out) := step w o in
      let got := obs_out out ++ observe w' addrs denoms in
      if zlist_eqb got expected then check_ops w' addrs denoms t (i + 1)
      else Some (i, got)
  end.

Record vcase := { c_id : Z; c_world : world; c_addrs : list Z; c_denoms : list Z;
                  c_init : list Z; c_ops : list (op * list Z) }.

Definition check_case (c : vcase) : option (Z * Z * list Z) :=
  if negb (zlist_eqb (observe (c_world c) (c_addrs c) (c_denoms c)) (c_init c))
  then Some (c_id c, -1, observe (c_world c) (c_addrs c) (c_denoms c))
  else match check_ops (c_world c) (c_addrs c) (c_denoms c) (c_ops c) 0 with
       | None => None
       | Some (i, got) => Some (c_id c, i, got)
       end.

Definition mismatches (cs : list vcase) : list (Z * Z * list Z) :=
  flat_map (fun c => match check_case c with None => [] | Some m => [m] end) cs.
