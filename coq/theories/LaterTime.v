(* Later.v — C07: after a split, at any later time, sender + recipient together have (up to a few base
   units and the resolution of the 18-digit vesting scalar) the vesting coins the sender alone would
   have had.  Abstract form: three scalars in [0, P] — sigma (sender at the split), s (sender later),
   r (recipient later) — related like the real schedule fractions they approximate,
   |(P - s) * P - (P - sigma) * (P - r)| <= E0, and any rounding within half a unit. *)
From C4E Require Import Base.
From Coq Require Import Lia ZifyBool.
Open Scope Z_scope.


Section LaterTime.
Variables sigma s r : Z.
Hypothesis Hsig : 0 <= sigma <= P.  Hypothesis Hs : 0 <= s <= P.  Hypothesis Hr : 0 <= r <= P.
Variable E0 : Z.
Hypothesis HE0 : 0 <= E0.
Hypothesis Hrel : - E0 <= (P - s) * P - (P - sigma) * (P - r) <= E0.

(* the rounded products n*scalar/P: any values within half a unit *)
Variables R0 Ra Rb Rc : Z.
Variables OV U D k : Z.
Hypothesis HOV : 1 <= OV.
Hypothesis HR0 : - P <= 2 * P * R0 - 2 * OV * sigma <= P.                 (* vested part of OV at the split *)
Hypothesis HU : 1 <= U <= OV - R0.                                        (* 1 <= U <= vesting coins at the split *)
Hypothesis HD : D * (OV - R0) <= U * OV < (D + 1) * (OV - R0).            (* D = floor(U*OV / V0) *)
Hypothesis Hk : 0 <= k <= 1.
Hypothesis HOV' : 0 <= OV - D - k.
Hypothesis HRa : - P <= 2 * P * Ra - 2 * OV * s <= P.                     (* sender unsplit, later *)
Hypothesis HRb : - P <= 2 * P * Rb - 2 * (OV - D - k) * s <= P.           (* sender after the split, later *)
Hypothesis HRc : - P <= 2 * P * Rc - 2 * U * r <= P.                      (* recipient, later *)

(* vesting coins later: sender after split + recipient - sender unsplit *)
Definition X : Z := ((OV - D - k) - Rb) + (U - Rc) - (OV - Ra).

Lemma D_range : 0 <= D <= OV.
Proof.
  pose proof P_pos as HP. assert (HV : 1 <= OV - R0) by lia. assert (HVle : OV - R0 <= OV).
  { assert (0 <= R0); [|lia]. nia. }
  split; [|lia]. destruct (Z_lt_le_dec D 0) as [Hn|]; [|assumption]. exfalso. nia.
Qed.

Theorem later_time_bound : - (3 * P * P + OV * E0) <= P * P * X <= 3 * P * P + OV * E0.
Proof.
  pose proof P_pos as HP. pose proof D_range as [HD0 HD1].
  set (A := P - s). set (Bt := P - r). set (At := P - sigma).
  assert (HA : 0 <= A <= P) by (unfold A; lia). assert (HB : 0 <= Bt <= P) by (unfold Bt; lia). assert (HAt : 0 <= At <= P) by (unfold At; lia).
  set (V0 := OV - R0) in *. assert (HV0 : 1 <= V0 <= OV) by (split; [lia|]; unfold V0; assert (0 <= R0) by nia; lia).
  (* 2P*X = 2(U*Bt - (D+k)*A) + e with |e| <= 3P *)
  assert (HX : - 3 * P <= 2 * P * X - 2 * (U * Bt - (D + k) * A) <= 3 * P).
  { unfold X, A, Bt. nia. }
  (* At*D is within (PU - 3P/2, PU + P/2]: from 2P*V0 = 2*OV*At - e0 *)
  assert (HV : - P <= 2 * OV * At - 2 * P * V0 <= P) by (unfold At, V0; lia).
  assert (HDV1 : V0 * D <= U * OV) by lia.
  assert (HDV2 : U * OV - V0 < V0 * D) by lia.
  assert (H1 : 2 * OV * (At * D) <= 2 * OV * (P * U) + OV * P).
  { assert (a1 : (2 * OV * At) * D <= (2 * P * V0 + P) * D) by (apply Z.mul_le_mono_nonneg_r; lia).
    assert (a2 : (2 * P) * (V0 * D) <= (2 * P) * (U * OV)) by (apply Z.mul_le_mono_nonneg_l; lia).
    assert (a3 : P * D <= P * OV) by (apply Z.mul_le_mono_nonneg_l; lia).
    replace (2 * OV * (At * D)) with ((2 * OV * At) * D) by ring.
    replace ((2 * P * V0 + P) * D) with ((2 * P) * (V0 * D) + P * D) in a1 by ring.
    replace (2 * OV * (P * U)) with ((2 * P) * (U * OV)) by ring. lia. }
  assert (H2 : 2 * OV * (P * U) - 3 * OV * P <= 2 * OV * (At * D)).
  { assert (a1 : (2 * P * V0 - P) * D <= (2 * OV * At) * D) by (apply Z.mul_le_mono_nonneg_r; lia).
    assert (a2 : (2 * P) * (U * OV - V0) <= (2 * P) * (V0 * D)) by (apply Z.mul_le_mono_nonneg_l; lia).
    assert (a3 : P * D <= P * OV) by (apply Z.mul_le_mono_nonneg_l; lia).
    assert (a4 : (2 * P) * V0 <= (2 * P) * OV) by (apply Z.mul_le_mono_nonneg_l; lia).
    replace (2 * OV * (At * D)) with ((2 * OV * At) * D) by ring.
    replace ((2 * P * V0 - P) * D) with ((2 * P) * (V0 * D) - P * D) in a1 by ring.
    replace ((2 * P) * (U * OV - V0)) with (2 * OV * (P * U) - (2 * P) * V0) in a2 by ring. lia. }
  assert (H1' : 2 * (At * D) <= 2 * (P * U) + P).
  { assert (OV * (2 * (At * D)) <= OV * (2 * (P * U) + P)) by (replace (OV * (2 * (At * D))) with (2 * OV * (At * D)) by ring; replace (OV * (2 * (P * U) + P)) with (2 * OV * (P * U) + OV * P) by ring; exact H1).
    apply (Z.mul_le_mono_pos_l _ _ OV); lia. }
  assert (H2' : 2 * (P * U) - 3 * P <= 2 * (At * D)).
  { assert (OV * (2 * (P * U) - 3 * P) <= OV * (2 * (At * D))) by (replace (OV * (2 * (At * D))) with (2 * OV * (At * D)) by ring; replace (OV * (2 * (P * U) - 3 * P)) with (2 * OV * (P * U) - 3 * OV * P) by ring; exact H2).
    apply (Z.mul_le_mono_pos_l _ _ OV); lia. }
  (* multiply by Bt in [0,P] and add k*At*Bt in [0, P*P] *)
  assert (Hk1 : 0 <= k * At <= P).
  { split; [apply Z.mul_nonneg_nonneg; lia|]. assert (k * At <= 1 * P) by (apply Z.mul_le_mono_nonneg; lia). lia. }
  assert (Hk2 : 0 <= (k * At) * Bt <= P * P).
  { split; [apply Z.mul_nonneg_nonneg; lia | apply Z.mul_le_mono_nonneg; lia]. }
  assert (HPB : 0 <= P * Bt <= P * P) by (split; [apply Z.mul_nonneg_nonneg; lia | apply Z.mul_le_mono_nonneg_l; lia]).
  assert (Hsplit : (D + k) * At * Bt = (At * D) * Bt + (k * At) * Bt) by ring.
  assert (H3 : 2 * ((D + k) * At * Bt) <= 2 * (P * U * Bt) + 3 * P * P).
  { assert (b1 : (2 * (At * D)) * Bt <= (2 * (P * U) + P) * Bt) by (apply Z.mul_le_mono_nonneg_r; lia).
    replace ((2 * (P * U) + P) * Bt) with (2 * (P * U * Bt) + P * Bt) in b1 by ring.
    replace ((2 * (At * D)) * Bt) with (2 * ((At * D) * Bt)) in b1 by ring. rewrite Hsplit. lia. }
  assert (H4 : 2 * (P * U * Bt) - 3 * P * P <= 2 * ((D + k) * At * Bt)).
  { assert (b1 : (2 * (P * U) - 3 * P) * Bt <= (2 * (At * D)) * Bt) by (apply Z.mul_le_mono_nonneg_r; lia).
    replace ((2 * (P * U) - 3 * P) * Bt) with (2 * (P * U * Bt) - 3 * (P * Bt)) in b1 by ring.
    replace ((2 * (At * D)) * Bt) with (2 * ((At * D) * Bt)) in b1 by ring. rewrite Hsplit. lia. }
  (* (D+k)*A*P = (D+k)*(At*Bt + delta), |delta| <= E0, D+k <= OV *)
  assert (Hdk : 0 <= D + k <= OV) by lia.
  fold A At Bt in Hrel.
  set (delta := A * P - At * Bt) in *.
  assert (H5 : - (OV * E0) <= (D + k) * delta <= OV * E0).
  { assert (c1 : (D + k) * delta <= (D + k) * E0) by (apply Z.mul_le_mono_nonneg_l; lia).
    assert (c2 : (D + k) * (- E0) <= (D + k) * delta) by (apply Z.mul_le_mono_nonneg_l; lia).
    assert (c3 : (D + k) * E0 <= OV * E0) by (apply Z.mul_le_mono_nonneg_r; lia).
    replace ((D + k) * - E0) with (- ((D + k) * E0)) in c2 by ring. lia. }
  assert (H5' : (D + k) * A * P = (D + k) * At * Bt + (D + k) * delta) by (unfold delta; ring).
  (* combine *)
  assert (H6 : - (3 * P * P + 2 * (OV * E0)) <= 2 * (P * U * Bt) - 2 * ((D + k) * A * P) <= 3 * P * P + 2 * (OV * E0)) by (rewrite H5'; lia).
  assert (H7 : P * (2 * P * X - 2 * (U * Bt - (D + k) * A)) <= P * (3 * P)) by (apply Z.mul_le_mono_nonneg_l; lia).
  assert (H8 : P * (- 3 * P) <= P * (2 * P * X - 2 * (U * Bt - (D + k) * A))) by (apply Z.mul_le_mono_nonneg_l; lia).
  replace (P * (2 * P * X - 2 * (U * Bt - (D + k) * A))) with (2 * (P * P * X) - (2 * (P * U * Bt) - 2 * ((D + k) * A * P))) in H7, H8 by ring.
  replace (P * (3 * P)) with (3 * P * P) in H7 by ring. replace (P * (- 3 * P)) with (- (3 * P * P)) in H8 by ring.
  replace (OV * E0) with (OV * E0) by reflexivity. lia.
Qed.
End LaterTime.

(* ---------------------------------------------------------------- the SDK's scalars -------- *)
From C4E Require Import Vest SplitArith.

(* the 18-digit vesting scalar x/y is within one unit of 10^-18 of the exact fraction *)
Lemma sigma_err x y : 0 < x -> x < y ->
  let sg := dec_quo (dec_of_int x) (dec_of_int y) in - y <= sg * y - x * P <= y.
Proof.
  intros Hx Hy. cbv zeta. unfold dec_quo, dec_of_int. pose proof P_pos as HP.
  set (q := Z.quot (x * P * P * P) (y * P)).
  assert (Hq : q = (x * P * P) / y).
  { unfold q. rewrite Z.quot_div_nonneg by nia. replace (x * P * P * P) with ((x * P * P) * P) by ring. apply Z.div_mul_cancel_r; lia. }
  assert (Hq1 : y * q <= x * P * P < y * q + y).
  { rewrite Hq. pose proof (Z.mul_div_le (x * P * P) y ltac:(lia)). pose proof (Z.mul_succ_div_gt (x * P * P) y ltac:(lia)). lia. }
  pose proof (chop_round_bound q) as Hc. set (c := chop_round q) in *.
  (* 2P*c within P of 2q; y*q within y of xPP *)
  assert (U1 : 2 * P * (c * y) <= 2 * (x * P * P) + P * y).
  { assert ((2 * P * c) * y <= (2 * q + P) * y) by (apply Z.mul_le_mono_nonneg_r; lia).
    replace ((2 * P * c) * y) with (2 * P * (c * y)) in H by ring. replace ((2 * q + P) * y) with (2 * (y * q) + P * y) in H by ring. lia. }
  assert (L1 : 2 * (x * P * P) - 2 * y - P * y <= 2 * P * (c * y)).
  { assert ((2 * q - P) * y <= (2 * P * c) * y) by (apply Z.mul_le_mono_nonneg_r; lia).
    replace ((2 * P * c) * y) with (2 * P * (c * y)) in H by ring. replace ((2 * q - P) * y) with (2 * (y * q) - P * y) in H by ring. lia. }
  (* divide by 2P *)
  split.
  - assert (2 * P * (- y) <= 2 * P * (c * y - x * P)); [|apply (Z.mul_le_mono_pos_l _ _ (2 * P)); lia].
    replace (2 * P * (c * y - x * P)) with (2 * P * (c * y) - 2 * (x * P * P)) by ring.
    assert (2 * y <= P * y) by (assert (2 <= P) by (unfold P; lia); nia). lia.
  - assert (2 * P * (c * y - x * P) <= 2 * P * y); [|apply (Z.mul_le_mono_pos_l _ _ (2 * P)); lia].
    replace (2 * P * (c * y - x * P)) with (2 * P * (c * y) - 2 * (x * P * P)) by ring.
    assert (0 <= P * y) by (apply Z.mul_nonneg_nonneg; lia). lia.
Qed.

Lemma abs_mul_le u v A B : - A <= u <= A -> - B <= v <= B -> 0 <= A -> 0 <= B -> - (A * B) <= u * v <= A * B.
Proof. intros. nia. Qed.

(* three scalars of one schedule: sender at the split (x1/y), sender later (x2/y), recipient later
   ((x2-x1)/(y-x1)); their complements multiply like the real fractions up to three units *)
Lemma scalars_related y x1 x2 sg s r :
  0 < x1 -> x1 < x2 -> x2 < y ->
  - y <= sg * y - x1 * P <= y -> - y <= s * y - x2 * P <= y -> - (y - x1) <= r * (y - x1) - (x2 - x1) * P <= y - x1 ->
  - (3 * P + 1) <= (P - s) * P - (P - sg) * (P - r) <= 3 * P + 1.
Proof.
  intros H1 H2 H3 Hsg Hs Hr. pose proof P_pos as HP.
  set (a := y - x1) in *. set (b := y - x2). assert (Ha : 0 < a <= y) by (unfold a; lia). assert (Hb : 0 < b <= a) by (unfold a, b; lia).
  set (es := s * y - x2 * P) in *. set (eg := sg * y - x1 * P) in *. set (er := r * a - (x2 - x1) * P) in *.
  set (Dl := (P - s) * P - (P - sg) * (P - r)).
  assert (Hid : Dl * (y * a) = - (a * P * es) + P * a * er + eg * (P * b) - eg * er).
  { unfold Dl, es, eg, er, a, b. ring. }
  (* bound each term by y*a*P (or y*a) *)
  assert (T1 : - (y * a * P) <= a * P * es <= y * a * P).
  { replace (a * P * es) with ((a * P) * es) by ring. replace (y * a * P) with ((a * P) * y) by ring.
    assert (0 <= a * P) by (apply Z.mul_nonneg_nonneg; lia). split; [replace (- (a * P * y)) with ((a * P) * (- y)) by ring|]; apply Z.mul_le_mono_nonneg_l; lia. }
  assert (T2 : - (y * a * P) <= P * a * er <= y * a * P).
  { assert (0 <= P * a) by (apply Z.mul_nonneg_nonneg; lia).
    assert (- ((P * a) * a) <= (P * a) * er <= (P * a) * a) by (split; [replace (- (P * a * a)) with ((P * a) * (- a)) by ring|]; apply Z.mul_le_mono_nonneg_l; lia).
    assert ((P * a) * a <= (P * a) * y) by (apply Z.mul_le_mono_nonneg_l; lia).
    replace (y * a * P) with ((P * a) * y) by ring. lia. }
  assert (T3 : - (y * a * P) <= eg * (P * b) <= y * a * P).
  { assert (0 <= P * b) by (apply Z.mul_nonneg_nonneg; lia).
    assert (- (y * (P * b)) <= eg * (P * b) <= y * (P * b)) by (split; [replace (- (y * (P * b))) with ((- y) * (P * b)) by ring|]; apply Z.mul_le_mono_nonneg_r; lia).
    assert (y * (P * b) <= y * (P * a)) by (apply Z.mul_le_mono_nonneg_l; [lia | apply Z.mul_le_mono_nonneg_l; lia]).
    replace (y * a * P) with (y * (P * a)) by ring. lia. }
  assert (T4 : - (y * a) <= eg * er <= y * a) by (apply abs_mul_le; lia).
  assert (Hya : 0 < y * a) by (apply Z.mul_pos_pos; lia).
  assert (Hbound : - ((3 * P + 1) * (y * a)) <= Dl * (y * a) <= (3 * P + 1) * (y * a)).
  { rewrite Hid. replace ((3 * P + 1) * (y * a)) with (3 * (y * a * P) + y * a) by ring. lia. }
  split.
  - apply (Z.mul_le_mono_pos_r _ _ (y * a)); [exact Hya|]. replace (- (3 * P + 1) * (y * a)) with (- ((3 * P + 1) * (y * a))) by ring. lia.
  - apply (Z.mul_le_mono_pos_r _ _ (y * a)); [exact Hya|]. lia.
Qed.

(* ---------------------------------------------------------------- the model's functions ---- *)
(* C07, later times: after a split of U at time tau (inside the schedule), at every later time t before
   the end, the vesting coins of the sender (with the reduced original vesting) plus those of the
   recipient (original vesting U, start tau, same end) differ from what the sender alone would have had
   by at most 3 base units plus the resolution of the 18-digit vesting scalar times the original vesting,
   OV * (3P+1) / P^2 ~ 3 * OV / 10^18 *)
Theorem later_time_agreement start end_ tau t OV U :
  1 <= OV -> start < tau -> tau < t -> t < end_ -> 1 <= U <= vesting_amt start end_ tau OV ->
  let OV' := unlock_ov start end_ tau OV U in
  let X := vesting_amt start end_ t OV' + vesting_amt tau end_ t U - vesting_amt start end_ t OV in
  - (3 * P * P + OV * (3 * P + 1)) <= P * P * X <= 3 * P * P + OV * (3 * P + 1).
Proof.
  intros HOV H1 H2 H3 HU. cbv zeta. pose proof P_pos as HP.
  destruct (unlock_ov_exact start end_ tau OV U ltac:(lia) HU) as [_ Hov'].
  rewrite !vesting_amt_mid by lia. rewrite vesting_amt_mid in HU by lia.
  set (sg := sigma_of start end_ tau) in *. set (s := sigma_of start end_ t). set (r := sigma_of tau end_ t).
  assert (Hsg : 0 <= sg <= P) by (apply scalar_range; lia).
  assert (Hs : 0 <= s <= P) by (apply scalar_range; lia).
  assert (Hr : 0 <= r <= P) by (apply scalar_range; lia).
  unfold Vab in *. set (R0 := rnd_of sg OV) in *. set (V0 := OV - R0) in *.
  (* the new original vesting: OV - D - k *)
  set (D := (U * OV) / V0).
  assert (Hun : exists k, 0 <= k <= 1 /\ unlock_ov start end_ tau OV U = OV - D - k).
  { unfold unlock_ov. cbv zeta. rewrite !vesting_amt_mid by lia. unfold Vab. fold sg. fold R0. fold V0.
    rewrite unlock_diff by lia. fold D.
    destruct (V0 - (OV - D - rnd_of sg (OV - D)) <? U); [exists 1 | exists 0]; split; lia. }
  destruct Hun as (k & Hk & Hun). rewrite Hun in *.
  assert (HD : D * V0 <= U * OV < (D + 1) * V0).
  { unfold D. pose proof (Z.mul_div_le (U * OV) V0 ltac:(lia)). pose proof (Z.mul_succ_div_gt (U * OV) V0 ltac:(lia)). lia. }
  assert (Hrel : - (3 * P + 1) <= (P - s) * P - (P - sg) * (P - r) <= 3 * P + 1).
  { apply (scalars_related (end_ - start) (tau - start) (t - start)); try lia.
    - apply (sigma_err (tau - start) (end_ - start)); lia.
    - apply (sigma_err (t - start) (end_ - start)); lia.
    - replace (end_ - start - (tau - start)) with (end_ - tau) by lia. replace (t - start - (tau - start)) with (t - tau) by lia.
      apply (sigma_err (t - tau) (end_ - tau)); lia. }
  pose proof (later_time_bound sg s r Hsg Hs Hr (3 * P + 1) ltac:(lia) Hrel R0 (rnd_of s OV) (rnd_of s (OV - D - k)) (rnd_of r U) OV U D k
                HOV (rnd_of_bound sg OV) HU HD Hk ltac:(lia) (rnd_of_bound s OV) (rnd_of_bound s (OV - D - k)) (rnd_of_bound r U)) as Hb.
  unfold X in Hb. exact Hb.
Qed.

(* a split before the schedule has started: both accounts follow the sender's schedule, and the sum
   differs by at most one base unit (three roundings of half a unit) *)
Theorem later_time_agreement_before_start start end_ tau t OV U :
  1 <= OV -> tau <= start -> start < t -> t < end_ -> 1 <= U <= OV ->
  unlock_ov start end_ tau OV U = OV - U /\
  let X := vesting_amt start end_ t (OV - U) + vesting_amt start end_ t U - vesting_amt start end_ t OV in
  - 1 <= X <= 1.
Proof.
  intros HOV H1 H2 H3 HU. pose proof P_pos as HP. split.
  - unfold unlock_ov. cbv zeta. rewrite !vesting_amt_before by lia. rewrite unlock_diff by lia. rewrite Z.div_mul by lia.
    replace (OV - (OV - U) <? U) with false by lia. reflexivity.
  - cbv zeta. rewrite !vesting_amt_mid by lia. unfold Vab. set (s := sigma_of start end_ t).
    pose proof (rnd_of_bound s OV) as B1. pose proof (rnd_of_bound s (OV - U)) as B2. pose proof (rnd_of_bound s U) as B3.
    set (ra := rnd_of s OV) in *. set (rb := rnd_of s (OV - U)) in *. set (rc := rnd_of s U) in *. clearbody ra rb rc. nia.
Qed.

(* at and after the end nothing is vesting on either account *)
Theorem later_time_agreement_after_end start end_ tau t OV U OV' :
  start < t -> tau < t -> end_ <= t ->
  vesting_amt start end_ t OV' + vesting_amt tau end_ t U - vesting_amt start end_ t OV = 0.
Proof. intros. rewrite !vesting_amt_after by lia. lia. Qed.
