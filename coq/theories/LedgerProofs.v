(* LedgerProofs.v — the real distributor BeginBlock refines the credited-amounts machine of Ledger.v, for every pattern of
   failing payouts and burns (C14: nothing is lost, and what every account has been credited does not depend on the failures;
   C04: every destination is credited exactly its truncated share). *)
From C4E Require Import Base Minter Distributor DistrCoins DistrProofs SupplyProofs Books Credited DistrNz Ledger.
From Coq Require Import Lia ZifyBool Permutation.
Open Scope Z_scope.

(* ------------------------------------------------------------------ remains per key *)
Lemma remk_nil k d : remk k d [] = 0. Proof. reflexivity. Qed.
Lemma remk_cons k d s t : remk k d (s :: t) = (if st_key s =? k then dc_amt d (st_rem s) else 0) + remk k d t.
Proof. reflexivity. Qed.
Lemma remk_app k d a b : remk k d (a ++ b) = remk k d a + remk k d b.
Proof. unfold remk. rewrite map_app, zsum_app. reflexivity. Qed.

Lemma remk_notin k d sts : ~ In k (map st_key sts) -> remk k d sts = 0.
Proof.
  induction sts as [|s t IH]; intros H; [reflexivity|]. rewrite remk_cons. cbn [map In] in H.
  destruct (st_key s =? k) eqn:E; [exfalso; apply H; left; lia|]. rewrite IH; [lia|tauto].
Qed.

Lemma remk_upd k d sts : forall pos f, (pos < length sts)%nat -> (forall s, st_key (f s) = st_key s) ->
  remk k d (upd_state sts pos f) =
  remk k d sts + (if st_key (nth pos sts dflt_state) =? k
                  then dc_amt d (st_rem (f (nth pos sts dflt_state))) - dc_amt d (st_rem (nth pos sts dflt_state)) else 0).
Proof.
  induction sts as [|s t IH]; intros pos f Hp Hk; [cbn in Hp; lia|].
  destruct pos as [|n]; cbn [upd_state nth]; rewrite !remk_cons.
  - rewrite Hk. destruct (st_key s =? k); lia.
  - rewrite IH by (cbn in Hp; try lia; exact Hk). lia.
Qed.

Lemma remk_unique k d sts : forall pos, NoDup (map st_key sts) -> (pos < length sts)%nat -> st_key (nth pos sts dflt_state) = k ->
  remk k d sts = dc_amt d (st_rem (nth pos sts dflt_state)).
Proof.
  induction sts as [|s t IH]; intros pos Hn Hp Hk; [cbn in Hp; lia|].
  cbn [map] in Hn. inversion Hn as [|? ? Hnotin Hn']; subst. rewrite remk_cons.
  destruct pos as [|n]; cbn [nth] in *.
  - rewrite Z.eqb_refl. rewrite remk_notin by exact Hnotin. lia.
  - assert (Hin : In (st_key (nth n t dflt_state)) (map st_key t)) by (apply in_map, nth_In; cbn in Hp; lia).
    destruct (st_key s =? st_key (nth n t dflt_state)) eqn:E; [exfalso; apply Hnotin; replace (st_key s) with (st_key (nth n t dflt_state)) by lia; exact Hin|].
    rewrite (IH n Hn' ltac:(cbn in Hp; lia) eq_refl). lia.
Qed.

Lemma remk_perm k d l l' : Permutation l l' -> remk k d l = remk k d l'.
Proof. induction 1; rewrite ?remk_cons; lia. Qed.


(* ------------------------------------------------------------------ a bank without pending failures *)
Lemma next_fault_nil b : bk_faults b = [] -> fst (next_fault b) = false /\ bk_faults (snd (next_fault b)) = [].
Proof. unfold next_fault. intros ->. split; reflexivity. Qed.

Lemma transfer_nofault b from to c : bk_faults b = [] -> fst (transfer b from to c) = true /\ bk_faults (snd (transfer b from to c)) = [].
Proof.
  intros H. unfold transfer. destruct (next_fault b) as [f b1] eqn:E. pose proof (next_fault_nil b H) as [H1 H2].
  rewrite E in H1, H2. cbn [fst snd] in H1, H2. subst f. cbn [fst snd bk_faults]. split; [reflexivity|exact H2].
Qed.

(* ------------------------------------------------------------------ the accounts of a configuration *)
Section Accounts.
  Variable Acct : dacct -> Prop.          (* the non-MAIN accounts that occur in the configuration *)
  Variable bk : Z.                        (* store key of the burn state *)
  Hypothesis acct_type : forall a, Acct a -> da_type a <> T_MAIN.
  Hypothesis acct_addr : forall a, Acct a -> da_type a <> T_INTERNAL -> da_addr a <> MAINADDR.
  Hypothesis acct_id : forall a, Acct a -> da_id a <> 0.
  Hypothesis acct_bk : forall a, Acct a -> da_key a <> bk.
  (* keys, ids and addresses identify the same accounts (no identifier shared by accounts of different types: not K4;
     no two names for one address) *)
  Hypothesis key_id : forall a a', Acct a -> Acct a' -> (da_key a = da_key a' <-> da_id a = da_id a').
  Hypothesis key_same : forall a a', Acct a -> Acct a' -> da_key a = da_key a' -> da_type a = da_type a' /\ da_addr a = da_addr a'.
  Hypothesis addr_key : forall a a', Acct a -> Acct a' -> da_type a <> T_INTERNAL -> da_type a' <> T_INTERNAL ->
                        da_addr a = da_addr a' -> da_key a = da_key a'.

  (* every state belongs to an account of the configuration and is stored under its key; the burn state carries the empty account *)
  Definition lkeyed (s : dstate) : Prop :=
    match st_acc s with
    | None => False
    | Some a => if st_burn s then st_key s = bk /\ a = EMPTY_ACCT else st_key s = da_key a /\ Acct a
    end.
  Definition linv (sts : list dstate) : Prop := Forall lkeyed sts /\ NoDup (map st_key sts).

  Lemma lkeyed_has_acc sts : Forall lkeyed sts -> Forall has_acc sts.
  Proof. intros H. eapply Forall_impl; [|exact H]. intros s Hs. unfold lkeyed in Hs. unfold has_acc. destruct (st_acc s); [discriminate|contradiction]. Qed.

  (* findAccountState compares identifiers only: under the assumptions it finds the state stored under the account's key *)
  Lemma find_some_key sts a : forall start pos, Forall lkeyed sts -> Acct a ->
    find_account_state sts (da_id a) start = Ok (Some pos) ->
    (start <= pos)%nat /\ st_key (nth (pos - start) sts dflt_state) = da_key a /\ st_burn (nth (pos - start) sts dflt_state) = false.
  Proof.
    induction sts as [|s t IH]; intros start pos Hk Ha Hf; [discriminate|].
    inversion Hk as [|? ? Hs Ht]; subst. cbn [find_account_state] in Hf. unfold lkeyed in Hs.
    destruct (st_acc s) as [a'|] eqn:Ea; [|contradiction].
    destruct (da_id a' =? da_id a) eqn:Eid.
    - inversion Hf; subst pos. replace (start - start)%nat with 0%nat by lia. cbn [nth]. split; [lia|].
      destruct (st_burn s) eqn:Eb.
      + destruct Hs as [_ Hs]. subst a'. unfold EMPTY_ACCT in Eid. cbn [da_id] in Eid. pose proof (acct_id a Ha). lia.
      + destruct Hs as [Hs1 Hs2]. split; [|reflexivity]. rewrite Hs1. apply (key_id a' a Hs2 Ha). lia.
    - destruct (IH (S start) pos Ht Ha Hf) as (H1 & H2 & H3). split; [lia|].
      replace (pos - start)%nat with (S (pos - S start)) by lia. cbn [nth]. split; assumption.
  Qed.

  Lemma find_none_key sts a : forall start, Forall lkeyed sts -> Acct a ->
    find_account_state sts (da_id a) start = Ok None -> ~ In (da_key a) (map st_key sts).
  Proof.
    induction sts as [|s t IH]; intros start Hk Ha Hf; [intros []|].
    inversion Hk as [|? ? Hs Ht]; subst. cbn [find_account_state] in Hf. unfold lkeyed in Hs.
    destruct (st_acc s) as [a'|] eqn:Ea; [|contradiction].
    destruct (da_id a' =? da_id a) eqn:Eid; [discriminate|]. cbn [map In]. intros [E|E]; [|exact (IH _ Ht Ha Hf E)].
    destruct (st_burn s).
    - destruct Hs as [Hs _]. apply (acct_bk a Ha). congruence.
    - destruct Hs as [Hs1 Hs2]. assert (da_id a' = da_id a) by (apply (key_id a' a Hs2 Ha); congruence). lia.
  Qed.

  Lemma find_burn_key sts : forall start pos, Forall lkeyed sts -> find_burn_state sts start = Some pos ->
    (start <= pos)%nat /\ st_key (nth (pos - start) sts dflt_state) = bk.
  Proof.
    induction sts as [|s t IH]; intros start pos Hk Hf; [discriminate|].
    inversion Hk as [|? ? Hs Ht]; subst. cbn [find_burn_state] in Hf. unfold lkeyed in Hs.
    destruct (st_acc s) as [a'|] eqn:Ea; [|contradiction].
    destruct (st_burn s) eqn:Eb.
    - inversion Hf; subst pos. replace (start - start)%nat with 0%nat by lia. cbn [nth]. split; [lia|]. tauto.
    - destruct (IH (S start) pos Ht Hf) as (H1 & H2). split; [lia|].
      replace (pos - start)%nat with (S (pos - S start)) by lia. cbn [nth]. exact H2.
  Qed.

  Lemma find_burn_none sts : forall start, Forall lkeyed sts -> find_burn_state sts start = None -> ~ In bk (map st_key sts).
  Proof.
    induction sts as [|s t IH]; intros start Hk Hf; [intros []|].
    inversion Hk as [|? ? Hs Ht]; subst. cbn [find_burn_state] in Hf. unfold lkeyed in Hs.
    destruct (st_acc s) as [a'|] eqn:Ea; [|contradiction].
    destruct (st_burn s); [discriminate|]. destruct Hs as [Hs1 Hs2]. cbn [map In]. intros [E|E]; [|exact (IH _ Ht Hf E)].
    apply (acct_bk a' Hs2). congruence.
  Qed.

  (* the invariant under the two ways the state list changes *)
  Lemma linv_upd sts pos f : linv sts -> (forall s, same_sig s (f s)) -> linv (upd_state sts pos f).
  Proof.
    intros [Hk Hn] Hf. split.
    - clear Hn. revert pos. induction sts as [|s t IH]; intros pos; [destruct pos; constructor|].
      inversion Hk as [|? ? Hs Ht]; subst. destruct pos; cbn [upd_state]; constructor; auto.
      unfold lkeyed in *. destruct (Hf s) as (-> & -> & ->). exact Hs.
    - assert (E : map st_key (upd_state sts pos f) = map st_key sts).
      { clear Hk Hn. revert pos. induction sts as [|s t IH]; intros pos; [destruct pos; reflexivity|].
        destruct pos; cbn [upd_state map]; [destruct (Hf s) as (_ & _ & ->); reflexivity|rewrite IH; reflexivity]. }
      rewrite E. exact Hn.
  Qed.

  Lemma linv_snoc sts s : linv sts -> lkeyed s -> ~ In (st_key s) (map st_key sts) -> linv (sts ++ [s]).
  Proof.
    intros [Hk Hn] Hs Hfresh. split.
    - apply Forall_app. split; [exact Hk|constructor; [exact Hs|constructor]].
    - rewrite map_app. cbn [map]. apply NoDup_snoc; assumption.
  Qed.

  (* ------------------------------------------------------------------ invariants carried through a block *)
  Definition nzs (sts : list dstate) : Prop := Forall (fun s => dc_nz (st_rem s)) sts.
  Definition nzb (b : bank) : Prop := (forall a, dc_nz (bal_of (bk_bal b) a)) /\ dc_nz (bk_burned b).
  Record xinv (sts : list dstate) (b : bank) : Prop := {
    x_inv : inv sts b; x_lin : linv sts; x_nzs : nzs sts; x_nzb : nzb b }.

  Definition RepF (d : Z) (st : aled) (sts : list dstate) (b : bank) (inflight : Z) : Prop :=
    (forall a, Acct a -> aL st (da_key a) = ledA a sts b d) /\ aB st = ledB bk sts b d /\ aU st + inflight = unbooked sts b d.

  Lemma nzb_aset b a v : nzb b -> dc_nz v ->
    nzb {| bk_bal := aset a v (bk_bal b); bk_burned := bk_burned b; bk_faults := bk_faults b; bk_calls := bk_calls b |}.
  Proof.
    intros [H1 H2] Hv. split; [|exact H2]. intros x. cbn [bk_bal].
    destruct (Z.eq_dec x a) as [->|Hne]; [rewrite bal_of_aset_same; exact Hv | rewrite bal_of_aset_other by exact Hne; apply H1].
  Qed.

  (* ------------------------------------------------------------------ sweeping a source's balance (no bank failure) *)
  Definition sweep_of (src : dacct) (b : bank) : dcoins * bank :=
    if da_type src =? T_INTERNAL then ([], b)
    else
      let have := bal_of (bk_bal b) (da_addr src) in
      if dc_is_zero have then ([], b)
      else let '(ok, b1) := transfer b (da_addr src) MAINADDR have in
           if ok then (dc_of_coins have, b1) else ([], b1).

  Lemma sweep_effect src sts b : Acct src -> inv sts b -> nzb b -> bk_faults b = [] ->
    let sw := sweep_of src b in
    dc_wf (fst sw) /\ dc_nz (fst sw) /\ inv sts (snd sw) /\ nzb (snd sw) /\ (bk_faults (snd sw) = []) /\ (bk_burned (snd sw) = bk_burned b) /\
    (forall x, x <> MAINADDR -> (da_type src <> T_INTERNAL -> x <> da_addr src) -> bal_of (bk_bal (snd sw)) x = bal_of (bk_bal b) x) /\
    forall d, (dc_amt d (fst sw) = (if da_type src =? T_INTERNAL then 0 else dc_amt d (bal_of (bk_bal b) (da_addr src)) * P)) /\
              (da_type src <> T_INTERNAL -> dc_amt d (bal_of (bk_bal (snd sw)) (da_addr src)) = 0) /\
              (mainbal (snd sw) d * P = mainbal b d * P + dc_amt d (fst sw)).
  Proof.
    intros Ha Hi Hnz Hf. unfold sweep_of. destruct (da_type src =? T_INTERNAL) eqn:Et.
    - cbn [fst snd]. split; [exact I|]. split; [constructor|]. split; [exact Hi|]. split; [exact Hnz|]. split; [exact Hf|]. split; [reflexivity|].
      split; [intros; reflexivity|]. intros d. split; [reflexivity|]. split; [intros; lia|]. cbn [dc_amt]. lia.
    - assert (Hne : da_addr src <> MAINADDR) by (apply acct_addr; [exact Ha|lia]).
      set (have := bal_of (bk_bal b) (da_addr src)).
      destruct (dc_is_zero have) eqn:Ez.
      + cbn [fst snd]. assert (H0 : forall d, dc_amt d have = 0) by (apply dc_is_zero_amt; exact Ez).
        split; [exact I|]. split; [constructor|]. split; [exact Hi|]. split; [exact Hnz|]. split; [exact Hf|]. split; [reflexivity|].
        split; [intros; reflexivity|]. intros d. split; [cbn [dc_amt]; fold have; rewrite H0; lia|]. split; [intros _; fold have; apply H0|]. cbn [dc_amt]. lia.
      + pose proof (transfer_nofault b (da_addr src) MAINADDR have Hf) as [Hok Hf'].
        destruct (transfer b (da_addr src) MAINADDR have) as [ok b1] eqn:Etr. cbn [fst snd] in Hok, Hf'. subst ok. cbn [fst snd].
        assert (Hhw : dc_wf have) by apply (i_bwf _ _ Hi).
        assert (Hle : forall d, 0 <= dc_amt d have <= dc_amt d (bal_of (bk_bal b) (da_addr src))).
        { intros d. fold have. pose proof (i_bnn _ _ Hi (da_addr src) d). fold have in H. lia. }
        destruct (transfer_effect _ _ _ _ _ _ Etr Hne (i_bwf _ _ Hi) Hhw Hle) as (T1 & T2 & T3 & T4 & T5).
        destruct (dc_of_coins_spec have Hhw) as [Hcw Hca].
        assert (Hb1nn : bal_nonneg (bk_bal b1)).
        { intros x d. destruct (Z.eq_dec x (da_addr src)) as [->|Hx1]; [rewrite T4; fold have; lia|].
          destruct (Z.eq_dec x MAINADDR) as [->|Hx2]; [rewrite T5; pose proof (i_bnn _ _ Hi MAINADDR d); specialize (Hle d); lia|].
          rewrite T3 by assumption. apply (i_bnn _ _ Hi). }
        split; [exact Hcw|]. split; [apply dc_of_coins_nz; apply Hnz|].
        split; [apply (inv_bank sts b); [exact Hi | exact T2 | exact Hb1nn | rewrite T1; apply (i_burned _ _ Hi)]|].
        split.
        { (* nz of the new bank *)
          unfold transfer in Etr. destruct (next_fault b) as [f b0] eqn:En. pose proof (next_fault_bal b) as [Hb1 Hb2]. rewrite En in Hb1, Hb2. cbn [snd] in Hb1, Hb2.
          pose proof (next_fault_nil b Hf) as [Hff _]. rewrite En in Hff. cbn [fst] in Hff. subst f.
          inversion Etr; subst b1; clear Etr. destruct Hnz as [Hnz1 Hnz2]. split; [|cbn [bk_burned]; rewrite Hb2; exact Hnz2].
          intros x. cbn [bk_bal]. rewrite Hb1.
          destruct (Z.eq_dec x MAINADDR) as [->|Hx2].
          - rewrite bal_of_aset_same. apply dc_add_nz; [|apply Hnz1].
            rewrite bal_of_aset_other by (intros E; apply Hne; symmetry; exact E). apply Hnz1.
          - rewrite bal_of_aset_other by exact Hx2. destruct (Z.eq_dec x (da_addr src)) as [->|Hx1].
            + rewrite bal_of_aset_same. apply dc_add_nz; [apply Hnz1|apply dc_neg_nz; apply Hnz1].
            + rewrite bal_of_aset_other by exact Hx1. apply Hnz1. }
        split; [exact Hf'|]. split; [exact T1|].
        split; [intros x Hx1 Hx2; apply T3; [apply Hx2; lia | exact Hx1]|].
        intros d. split; [rewrite Hca; reflexivity|]. split; [intros _; rewrite T4; fold have; lia|].
        unfold mainbal. rewrite T5, Hca. lia.
  Qed.

  (* ------------------------------------------------------------------ re-queueing a source's recorded remains *)
  Lemma left_effect coins src sts c sts' : Acct src -> linv sts -> states_wf sts -> nzs sts -> dc_wf coins -> dc_nz coins ->
    prepare_left coins src sts = Ok (c, sts') ->
    linv sts' /\ nzs sts' /\ dc_nz c /\
    forall d, dc_amt d c = dc_amt d coins + remk (da_key src) d sts /\ remk (da_key src) d sts' = 0 /\
              forall k, k <> da_key src -> remk k d sts' = remk k d sts.
  Proof.
    intros Ha [Hk Hn] Hw Hz Hcw Hcz. unfold prepare_left.
    destruct (find_account_state sts (da_id src) 0) as [[pos|]| |] eqn:Ef; try discriminate.
    - destruct (find_some_key sts src 0 pos Hk Ha Ef) as (_ & Hkey & _). rewrite Nat.sub_0_r in Hkey.
      pose proof (find_account_state_lt _ _ _ _ Ef) as Hp.
      change {| st_acc := None; st_burn := false; st_key := 0; st_rem := [] |} with dflt_state.
      set (r := st_rem (nth pos sts dflt_state)).
      assert (Hr : forall d, remk (da_key src) d sts = dc_amt d r) by (intros d; apply remk_unique; [exact Hn | lia | exact Hkey]).
      assert (Hrz : dc_nz r) by (apply (proj1 (Forall_forall _ _) Hz); apply nth_In; lia).
      destruct (dc_is_zero r) eqn:Ez; intros H; injection H as Hc' Hs'; subst c sts'.
      + split; [split; assumption|]. split; [exact Hz|]. split; [exact Hcz|]. intros d. rewrite Hr.
        pose proof (dc_is_zero_amt r Ez d) as H0. split; [lia|]. split; [exact H0|]. intros; reflexivity.
      + split; [apply linv_upd; [split; assumption | intros s; apply sig_set_rem]|].
        split.
        { unfold nzs. clear - Hz. revert pos. induction sts as [|s t IH]; intros pos; [destruct pos; constructor|].
          inversion Hz; subst. destruct pos; cbn [upd_state]; constructor; auto. cbn [set_rem st_rem]. constructor. }
        split; [apply dc_add_nz; assumption|].
        assert (Hrw : dc_wf r) by (apply (proj1 (Forall_forall _ _) Hw); apply nth_In; lia).
        intros d. rewrite dc_add_amt by assumption. rewrite Hr. split; [reflexivity|]. split.
        * rewrite remk_upd by (try lia; intros; reflexivity). rewrite Hkey, Z.eqb_refl. fold r. cbn [set_rem st_rem dc_amt]. rewrite Hr. lia.
        * intros k Hk'. rewrite remk_upd by (try lia; intros; reflexivity). rewrite Hkey.
          destruct (da_key src =? k) eqn:E; [lia|]. lia.
    - intros H; injection H as Hc' Hs'; subst c sts'. pose proof (find_none_key sts src 0 Hk Ha Ef) as Hnot.
      split; [split; assumption|]. split; [exact Hz|]. split; [exact Hcz|]. intros d. rewrite (remk_notin _ d _ Hnot).
      split; [lia|]. split; [reflexivity|]. intros; reflexivity.
  Qed.

  Lemma prepare_source_unfold src sts b : da_type src <> T_MAIN ->
    prepare_source src sts b =
    match prepare_left (fst (sweep_of src b)) src sts with
    | Ok (c, sts') => Ok (c, sts', snd (sweep_of src b)) | Err => Err | Panic => Panic end.
  Proof. intros H. unfold prepare_source, sweep_of. replace (da_type src =? T_MAIN) with false by lia. reflexivity. Qed.

  (* ------------------------------------------------------------------ a source that is an account of the configuration *)
  Lemma take_plain src sts b (st : Z -> aled) (infl : Z -> Z) :
    Acct src -> xinv sts b -> bk_faults b = [] -> (forall d, RepF d (st d) sts b (infl d)) ->
    exists c sts' b', prepare_source src sts b = Ok (c, sts', b') /\ xinv sts' b' /\ bk_faults b' = [] /\
      dc_wf c /\ dc_nz c /\ (forall d, 0 <= dc_amt d c) /\
      forall d, dc_amt d c = fst (a_take src (st d)) /\ RepF d (snd (a_take src (st d))) sts' b' (infl d + dc_amt d c).
  Proof.
    intros Ha [Hi Hl Hzs Hzb] Hf Hrep.
    pose proof (acct_type src Ha) as Hty. pose proof (acct_addr src Ha) as Had.
    destruct (prepare_source_other src sts b Hi Hty Had) as (c & sts' & b' & E & Hi' & Hcw & Hcn & Hub).
    exists c, sts', b'. split; [exact E|].
    rewrite (prepare_source_unfold src sts b Hty) in E.
    destruct (prepare_left (fst (sweep_of src b)) src sts) as [[c0 s0]| |] eqn:El; try discriminate.
    injection E as Ec Es Eb. subst c0 s0.
    pose proof (sweep_effect src sts b Ha Hi Hzb Hf) as Hsw. cbv zeta in Hsw.
    destruct Hsw as (S1 & S2 & S3 & S4 & S5 & S6 & S7 & S8). rewrite Eb in S3, S4, S5, S6, S7, S8.
    destruct (left_effect _ _ _ _ _ Ha Hl (i_wf _ _ Hi) Hzs S1 S2 El) as (L1 & L2 & L3 & L4).
    split; [constructor; assumption|]. split; [exact S5|]. split; [exact Hcw|]. split; [exact L3|]. split; [exact Hcn|].
    intros d. destruct (S8 d) as (S8a & S8b & S8c). destruct (L4 d) as (L4a & L4b & L4c).
    destruct (Hrep d) as (R1 & R2 & R3).
    assert (Hc : dc_amt d c = ledA src sts b d) by (unfold ledA; rewrite L4a, S8a; reflexivity).
    unfold a_take. replace (da_type src =? T_MAIN) with false by lia. cbn [fst snd].
    split; [rewrite (R1 src Ha); exact Hc|].
    split; [|split].
    - intros a Haa. cbn [aL]. unfold a_set. destruct (da_key a =? da_key src) eqn:Ek.
      + assert (Ekk : da_key a = da_key src) by lia. destruct (key_same a src Haa Ha Ekk) as [Et Ead].
        unfold ledA. rewrite Et, Ead, Ekk, L4b. destruct (da_type src =? T_INTERNAL) eqn:Ei; [reflexivity|].
        rewrite S8b by lia. reflexivity.
      + rewrite (R1 a Haa). unfold ledA. rewrite (L4c (da_key a)) by lia.
        destruct (da_type a =? T_INTERNAL) eqn:Ei; [reflexivity|].
        rewrite S7; [reflexivity | apply acct_addr; [exact Haa|lia] |].
        intros Hsi Heq. assert (da_key a = da_key src) by (apply addr_key; try assumption; lia). lia.
    - cbn [aB]. rewrite R2. unfold ledB. rewrite S6. rewrite (L4c bk) by (intros Eq; apply (acct_bk src Ha); symmetry; exact Eq). reflexivity.
    - cbn [aU]. rewrite Hub. lia.
  Qed.

  Lemma rem_sum_nz sts : nzs sts -> dc_nz (rem_sum sts).
  Proof.
    unfold rem_sum. intros H. assert (G : forall acc, dc_nz acc -> dc_nz (fold_left (fun a s => dc_add a (st_rem s)) sts acc)).
    { induction H as [|s t Hs Ht IH]; intros acc Ha; cbn [fold_left]; [exact Ha|]. apply IH. apply dc_add_nz; assumption. }
    apply G. constructor.
  Qed.

  (* ------------------------------------------------------------------ the main account as a source: the unbooked part *)
  Lemma take_main src sts b (st : Z -> aled) :
    da_type src = T_MAIN -> xinv sts b -> (forall d, 0 <= unbooked sts b d) -> (forall d, RepF d (st d) sts b 0) ->
    exists c, prepare_source src sts b = Ok (c, sts, b) /\ dc_wf c /\ dc_nz c /\ (forall d, 0 <= dc_amt d c) /\
      forall d, dc_amt d c = fst (a_take src (st d)) /\ RepF d (snd (a_take src (st d))) sts b (dc_amt d c).
  Proof.
    intros Ht [Hi Hl Hzs Hzb] Hu Hrep.
    destruct (prepare_source_main src sts b Hi Ht Hu) as (c & E & Hcw & Hca).
    exists c. split; [exact E|]. split; [exact Hcw|]. split.
    { unfold prepare_source in E. rewrite Ht in E. cbn [Z.eqb T_MAIN] in E.
      destruct (dc_is_zero (dc_of_coins (bal_of (bk_bal b) MAINADDR))); [injection E as <-; constructor|].
      destruct (dc_sub (dc_of_coins (bal_of (bk_bal b) MAINADDR)) (rem_sum sts)) as [c0| |] eqn:Es; try discriminate.
      injection E as <-. eapply dc_sub_nz; [| |exact Es]; [apply dc_of_coins_nz; apply Hzb | apply rem_sum_nz; exact Hzs]. }
    split; [intros d; rewrite Hca; apply Hu|].
    intros d. destruct (Hrep d) as (R1 & R2 & R3). unfold a_take. rewrite Ht. cbn [Z.eqb T_MAIN fst snd].
    split; [rewrite Hca; lia|]. split; [exact R1|]. split; [exact R2|]. cbn [aU]. rewrite Hca. lia.
  Qed.

  (* ------------------------------------------------------------------ all sources of a sub-distributor *)
  Lemma take_all_plain srcs : forall sts b acc (st : Z -> aled) (infl : Z -> Z),
    Forall Acct srcs -> xinv sts b -> bk_faults b = [] -> (forall d, RepF d (st d) sts b (infl d)) ->
    dc_wf acc -> dc_nz acc -> (forall d, 0 <= dc_amt d acc) ->
    exists c sts' b', prepare_all srcs sts b acc = Ok (c, sts', b') /\ xinv sts' b' /\ bk_faults b' = [] /\
      dc_wf c /\ dc_nz c /\ (forall d, 0 <= dc_amt d c) /\
      forall d, dc_amt d c = fst (a_take_all srcs (st d) (dc_amt d acc)) /\
                RepF d (snd (a_take_all srcs (st d) (dc_amt d acc))) sts' b' (infl d + (dc_amt d c - dc_amt d acc)).
  Proof.
    induction srcs as [|s t IH]; intros sts b acc st infl Hs Hx Hf Hrep Haw Haz Han.
    - exists acc, sts, b. cbn [prepare_all a_take_all fst snd].
      split; [reflexivity|]. split; [exact Hx|]. split; [exact Hf|]. split; [exact Haw|]. split; [exact Haz|]. split; [exact Han|].
      intros d. split; [reflexivity|]. replace (infl d + (dc_amt d acc - dc_amt d acc)) with (infl d) by lia. apply Hrep.
    - inversion Hs as [|? ? Hs1 Hs2]; subst.
      destruct (take_plain s sts b st infl Hs1 Hx Hf Hrep) as (c0 & sts1 & b1 & E & Hx1 & Hf1 & Hcw & Hcz & Hcn & Hc).
      cbn [prepare_all]. rewrite E.
      set (acc' := if dc_is_zero c0 then acc else dc_add acc c0).
      assert (Hacc' : dc_wf acc' /\ dc_nz acc' /\ forall d, dc_amt d acc' = dc_amt d acc + dc_amt d c0).
      { subst acc'. destruct (dc_is_zero c0) eqn:Ez.
        - split; [exact Haw|]. split; [exact Haz|]. intros d. rewrite (dc_is_zero_amt c0 Ez d). lia.
        - split; [apply dc_add_wf; assumption|]. split; [apply dc_add_nz; assumption|]. intros d. apply dc_add_amt; assumption. }
      destruct Hacc' as (Hw' & Hz' & Ha').
      destruct (IH sts1 b1 acc' (fun d => snd (a_take s (st d))) (fun d => infl d + dc_amt d c0) Hs2 Hx1 Hf1) as
        (c & sts' & b' & E' & Hx' & Hf' & Hcw' & Hcz' & Hcn' & Hc'); try assumption.
      { intros d. apply (Hc d). }
      { intros d. rewrite Ha'. specialize (Han d). specialize (Hcn d). lia. }
      exists c, sts', b'. split; [exact E'|]. repeat (split; [assumption|]).
      intros d. destruct (Hc d) as [Hc1 _]. destruct (Hc' d) as [Hc1' Hc2']. cbn [a_take_all].
      destruct (a_take s (st d)) as [cc st'] eqn:Et. cbn [fst snd] in *. subst cc.
      rewrite Ha' in Hc1', Hc2'. split; [exact Hc1'|].
      replace (infl d + (dc_amt d c - dc_amt d acc)) with (infl d + dc_amt d c0 + (dc_amt d c - (dc_amt d acc + dc_amt d c0))) by lia.
      exact Hc2'.
  Qed.

  Definition srcs_ok (srcs : list dacct) : Prop :=
    match srcs with [] => True | s :: t => (da_type s = T_MAIN \/ Acct s) /\ Forall Acct t end.

  Lemma take_all srcs sts b (st : Z -> aled) :
    srcs_ok srcs -> xinv sts b -> bk_faults b = [] -> (forall d, 0 <= unbooked sts b d) -> (forall d, RepF d (st d) sts b 0) ->
    exists c sts' b', prepare_all srcs sts b [] = Ok (c, sts', b') /\ xinv sts' b' /\ bk_faults b' = [] /\
      dc_wf c /\ dc_nz c /\ (forall d, 0 <= dc_amt d c) /\
      forall d, dc_amt d c = fst (a_take_all srcs (st d) 0) /\ RepF d (snd (a_take_all srcs (st d) 0)) sts' b' (dc_amt d c).
  Proof.
    intros Hs Hx Hf Hu Hrep. destruct srcs as [|s t].
    - exists [], sts, b. cbn [prepare_all a_take_all fst snd dc_amt].
      split; [reflexivity|]. split; [exact Hx|]. split; [exact Hf|]. split; [exact I|]. split; [constructor|]. split; [intros; lia|].
      intros d. split; [reflexivity|apply Hrep].
    - destruct Hs as [[Hm|Hp] Ht].
      + destruct (take_main s sts b st Hm Hx Hu Hrep) as (c0 & E & Hcw & Hcz & Hcn & Hc).
        cbn [prepare_all]. rewrite E.
        set (acc' := if dc_is_zero c0 then [] else dc_add [] c0).
        assert (Hacc' : dc_wf acc' /\ dc_nz acc' /\ forall d, dc_amt d acc' = dc_amt d c0).
        { subst acc'. destruct (dc_is_zero c0) eqn:Ez.
          - split; [exact I|]. split; [constructor|]. intros d. rewrite (dc_is_zero_amt c0 Ez d). reflexivity.
          - split; [apply dc_add_wf; [exact I|exact Hcw]|]. split; [apply dc_add_nz; [constructor|exact Hcz]|].
            intros d. rewrite dc_add_amt by (try exact I; assumption). reflexivity. }
        destruct Hacc' as (Hw' & Hz' & Ha').
        destruct (take_all_plain t sts b acc' (fun d => snd (a_take s (st d))) (fun d => dc_amt d c0) Ht Hx Hf) as
          (c & sts' & b' & E' & Hx' & Hf' & Hcw' & Hcz' & Hcn' & Hc'); try assumption.
        { intros d. apply (Hc d). }
        { intros d. rewrite Ha'. apply Hcn. }
        exists c, sts', b'. split; [exact E'|]. repeat (split; [assumption|]).
        intros d. destruct (Hc d) as [Hc1 _]. destruct (Hc' d) as [Hc1' Hc2']. cbn [a_take_all].
        destruct (a_take s (st d)) as [cc st'] eqn:Et. cbn [fst snd] in *. subst cc.
        rewrite Ha' in Hc1', Hc2'. cbn [Z.add]. split; [exact Hc1'|].
        replace (dc_amt d c) with (dc_amt d c0 + (dc_amt d c - dc_amt d c0)) by lia. exact Hc2'.
      + destruct (take_all_plain (s :: t) sts b [] st (fun _ => 0) (Forall_cons _ Hp Ht) Hx Hf Hrep I (Forall_nil _)) as
          (c & sts' & b' & E' & Hx' & Hf' & Hcw' & Hcz' & Hcn' & Hc').
        { intros d. cbn. lia. }
        exists c, sts', b'. split; [exact E'|]. repeat (split; [assumption|]).
        intros d. destruct (Hc' d) as [Hc1' Hc2']. cbn [dc_amt] in Hc1', Hc2'. split; [exact Hc1'|].
        replace (dc_amt d c) with (0 + (dc_amt d c - 0)) by lia. exact Hc2'.
  Qed.

  (* ------------------------------------------------------------------ crediting a destination *)
  Lemma nzs_upd_add sts pos share : nzs sts -> dc_nz share -> nzs (upd_state sts pos (add_rem share)).
  Proof.
    unfold nzs. revert pos. induction sts as [|s t IH]; intros pos Hz Hs; [destruct pos; constructor|].
    inversion Hz; subst. destruct pos; cbn [upd_state]; constructor; auto. cbn [add_rem set_rem st_rem]. apply dc_add_nz; assumption.
  Qed.

  Lemma credit_acct dest share sts sts' b (st : Z -> aled) (infl : Z -> Z) :
    Acct dest -> add_share_to_account sts dest share = Ok sts' -> xinv sts b ->
    dc_wf share -> dc_nz share -> (forall d, 0 <= dc_amt d share) -> (forall d, RepF d (st d) sts b (infl d)) ->
    xinv sts' b /\ forall d, RepF d (a_credit dest (dc_amt d share) (st d)) sts' b (infl d - dc_amt d share).
  Proof.
    intros Ha E [Hi [Hk Hn] Hzs Hzb] Hsw Hsz Hsn Hrep.
    destruct (add_share_to_account_spec _ _ _ _ E (i_wf _ _ Hi) Hsw) as [Hw' Hrs].
    pose proof (add_share_to_account_nn _ _ _ _ E (i_wf _ _ Hi) (i_nn _ _ Hi) Hsw Hsn) as Hnn'.
    unfold add_share_to_account in E.
    destruct (find_account_state sts (da_id dest) 0) as [[pos|]| |] eqn:Ef; try discriminate; injection E as <-.
    - destruct (find_some_key sts dest 0 pos Hk Ha Ef) as (_ & Hkey & _). rewrite Nat.sub_0_r in Hkey.
      pose proof (find_account_state_lt _ _ _ _ Ef) as Hp.
      assert (Hl' : linv (upd_state sts pos (add_rem share))) by (apply linv_upd; [split; assumption | intros s; apply sig_add_rem]).
      assert (Hrw : dc_wf (st_rem (nth pos sts dflt_state))) by (apply (proj1 (Forall_forall _ _) (i_wf _ _ Hi)); apply nth_In; lia).
      split.
      { constructor; [|exact Hl'|apply nzs_upd_add; assumption|exact Hzb].
        apply (inv_states sts); [exact Hi|exact Hw'|exact Hnn'|apply (lkeyed_has_acc _ (proj1 Hl'))]. }
      intros d. destruct (Hrep d) as (R1 & R2 & R3). unfold a_credit. replace (da_type dest =? T_MAIN) with false by (pose proof (acct_type dest Ha); lia).
      assert (Hupd : forall k, remk k d (upd_state sts pos (add_rem share)) = remk k d sts + (if da_key dest =? k then dc_amt d share else 0)).
      { intros k. rewrite remk_upd by (try lia; intros; reflexivity). rewrite Hkey. destruct (da_key dest =? k); [|lia].
        cbn [add_rem set_rem st_rem]. rewrite dc_add_amt by assumption. lia. }
      split; [|split].
      + intros a Haa. cbn [aL]. unfold a_set, ledA. rewrite Hupd. destruct (da_key a =? da_key dest) eqn:Ek.
        * assert (Ekk : da_key a = da_key dest) by lia. replace (da_key dest =? da_key a) with true by lia.
          rewrite <- Ekk. rewrite (R1 a Haa). unfold ledA. lia.
        * replace (da_key dest =? da_key a) with false by lia. rewrite (R1 a Haa). unfold ledA. lia.
      + cbn [aB]. rewrite R2. unfold ledB. rewrite Hupd. replace (da_key dest =? bk) with false by (pose proof (acct_bk dest Ha); lia). lia.
      + cbn [aU]. unfold unbooked in *. rewrite Hrs. lia.
    - pose proof (find_none_key sts dest 0 Hk Ha Ef) as Hnot.
      set (ns := {| st_acc := Some dest; st_burn := false; st_key := da_key dest; st_rem := share |}).
      assert (Hl' : linv (sts ++ [ns])).
      { apply linv_snoc; [split; assumption| |exact Hnot]. unfold lkeyed, ns; cbn. split; [reflexivity|exact Ha]. }
      split.
      { constructor; [|exact Hl'| |exact Hzb].
        - apply (inv_states sts); [exact Hi|exact Hw'|exact Hnn'|apply (lkeyed_has_acc _ (proj1 Hl'))].
        - apply Forall_app. split; [exact Hzs|constructor; [exact Hsz|constructor]]. }
      intros d. destruct (Hrep d) as (R1 & R2 & R3). unfold a_credit. replace (da_type dest =? T_MAIN) with false by (pose proof (acct_type dest Ha); lia).
      assert (Hupd : forall k, remk k d (sts ++ [ns]) = remk k d sts + (if da_key dest =? k then dc_amt d share else 0)).
      { intros k. rewrite remk_app, remk_cons, remk_nil. cbn [st_key st_rem ns]. destruct (da_key dest =? k); lia. }
      split; [|split].
      + intros a Haa. cbn [aL]. unfold a_set, ledA. rewrite Hupd. destruct (da_key a =? da_key dest) eqn:Ek.
        * assert (Ekk : da_key a = da_key dest) by lia. replace (da_key dest =? da_key a) with true by lia.
          rewrite <- Ekk. rewrite (R1 a Haa). unfold ledA. lia.
        * replace (da_key dest =? da_key a) with false by lia. rewrite (R1 a Haa). unfold ledA. lia.
      + cbn [aB]. rewrite R2. unfold ledB. rewrite Hupd. replace (da_key dest =? bk) with false by (pose proof (acct_bk dest Ha); lia). lia.
      + cbn [aU]. unfold unbooked in *. rewrite Hrs. lia.
  Qed.

  Lemma credit_burn share sts b (st : Z -> aled) (infl : Z -> Z) :
    xinv sts b -> dc_wf share -> dc_nz share -> (forall d, 0 <= dc_amt d share) -> (forall d, RepF d (st d) sts b (infl d)) ->
    xinv (add_share_to_burn sts bk share) b /\
    forall d, RepF d {| aL := aL (st d); aB := aB (st d) + dc_amt d share; aU := aU (st d) |} (add_share_to_burn sts bk share) b (infl d - dc_amt d share).
  Proof.
    intros [Hi [Hk Hn] Hzs Hzb] Hsw Hsz Hsn Hrep.
    destruct (add_share_to_burn_spec sts bk share (i_wf _ _ Hi) Hsw) as [Hw' Hrs].
    pose proof (add_share_to_burn_nn sts bk share (i_wf _ _ Hi) (i_nn _ _ Hi) Hsw Hsn) as Hnn'.
    unfold add_share_to_burn in *.
    destruct (find_burn_state sts 0) as [pos|] eqn:Ef.
    - destruct (find_burn_key sts 0 pos Hk Ef) as (_ & Hkey). rewrite Nat.sub_0_r in Hkey.
      pose proof (find_burn_state_lt _ _ _ Ef) as Hp.
      assert (Hl' : linv (upd_state sts pos (add_rem share))) by (apply linv_upd; [split; assumption | intros s; apply sig_add_rem]).
      assert (Hrw : dc_wf (st_rem (nth pos sts dflt_state))) by (apply (proj1 (Forall_forall _ _) (i_wf _ _ Hi)); apply nth_In; lia).
      split.
      { constructor; [|exact Hl'|apply nzs_upd_add; assumption|exact Hzb].
        apply (inv_states sts); [exact Hi|exact Hw'|exact Hnn'|apply (lkeyed_has_acc _ (proj1 Hl'))]. }
      intros d. destruct (Hrep d) as (R1 & R2 & R3).
      assert (Hupd : forall k, remk k d (upd_state sts pos (add_rem share)) = remk k d sts + (if bk =? k then dc_amt d share else 0)).
      { intros k. rewrite remk_upd by (try lia; intros; reflexivity). rewrite Hkey. destruct (bk =? k); [|lia].
        cbn [add_rem set_rem st_rem]. rewrite dc_add_amt by assumption. lia. }
      split; [|split].
      + intros a Haa. cbn [aL]. rewrite (R1 a Haa). unfold ledA. rewrite Hupd. replace (bk =? da_key a) with false by (pose proof (acct_bk a Haa); lia). lia.
      + cbn [aB]. rewrite R2. unfold ledB. rewrite Hupd, Z.eqb_refl. lia.
      + cbn [aU]. unfold unbooked in *. rewrite Hrs. lia.
    - pose proof (find_burn_none sts 0 Hk Ef) as Hnot.
      set (ns := {| st_acc := Some EMPTY_ACCT; st_burn := true; st_key := bk; st_rem := share |}).
      assert (Hl' : linv (sts ++ [ns])).
      { apply linv_snoc; [split; assumption| |exact Hnot]. unfold lkeyed, ns; cbn. split; reflexivity. }
      split.
      { constructor; [|exact Hl'| |exact Hzb].
        - apply (inv_states sts); [exact Hi|exact Hw'|exact Hnn'|apply (lkeyed_has_acc _ (proj1 Hl'))].
        - apply Forall_app. split; [exact Hzs|constructor; [exact Hsz|constructor]]. }
      intros d. destruct (Hrep d) as (R1 & R2 & R3).
      assert (Hupd : forall k, remk k d (sts ++ [ns]) = remk k d sts + (if bk =? k then dc_amt d share else 0)).
      { intros k. rewrite remk_app, remk_cons, remk_nil. cbn [st_key st_rem ns]. destruct (bk =? k); lia. }
      split; [|split].
      + intros a Haa. cbn [aL]. rewrite (R1 a Haa). unfold ledA. rewrite Hupd. replace (bk =? da_key a) with false by (pose proof (acct_bk a Haa); lia). lia.
      + cbn [aB]. rewrite R2. unfold ledB. rewrite Hupd, Z.eqb_refl. lia.
      + cbn [aU]. unfold unbooked in *. rewrite Hrs. lia.
  Qed.

  Lemma rep_credit_zero d st sts b i dest : RepF d st sts b i -> RepF d (a_credit dest 0 st) sts b i.
  Proof.
    intros (R1 & R2 & R3). unfold a_credit. destruct (da_type dest =? T_MAIN).
    - split; [exact R1|]. split; [exact R2|]. cbn [aU]. lia.
    - split; [|split; [exact R2|exact R3]]. intros a Ha. cbn [aL]. unfold a_set. destruct (da_key a =? da_key dest) eqn:E; [|apply R1; exact Ha].
      replace (da_key dest) with (da_key a) by lia. rewrite (R1 a Ha). lia.
  Qed.

  (* ------------------------------------------------------------------ the named shares of a sub-distributor *)
  Definition share_ok (sh : dshare) : Prop := 0 <= sh_share sh /\ (da_type (sh_dest sh) = T_MAIN \/ Acct (sh_dest sh)).

  Lemma dist_shares_effect inflow b : dc_wf inflow -> dc_all_positive inflow = true ->
    forall shares sts dflt evs sts' dflt' evs' (st : Z -> aled) (infl : Z -> Z),
    distribute_shares shares inflow sts dflt evs = Ok (sts', dflt', evs') -> Forall share_ok shares ->
    xinv sts b -> dc_wf dflt -> dc_nz dflt -> (forall d, RepF d (st d) sts b (infl d)) ->
    xinv sts' b /\ dc_wf dflt' /\ dc_nz dflt' /\
    forall d, dc_amt d dflt' = snd (a_shares shares (dc_amt d inflow) (st d) (dc_amt d dflt)) /\
              RepF d (fst (a_shares shares (dc_amt d inflow) (st d) (dc_amt d dflt))) sts' b (infl d - (dc_amt d dflt - dc_amt d dflt')).
  Proof.
    intros Hin Hpos. induction shares as [|sh t IH]; intros sts dflt evs sts' dflt' evs' st infl H Hok Hx Hdw Hdz Hrep; cbn [distribute_shares] in H.
    - injection H as <- <- <-. split; [exact Hx|]. split; [exact Hdw|]. split; [exact Hdz|]. intros d. cbn [a_shares fst snd].
      split; [reflexivity|]. replace (infl d - (dc_amt d dflt - dc_amt d dflt)) with (infl d) by lia. apply Hrep.
    - inversion Hok as [|? ? [Hsh Hdest] Hok']; subst. cbn [a_shares].
      destruct (da_type (sh_dest sh) =? T_MAIN) eqn:Em; [exact (IH _ _ _ _ _ _ st infl H Hok' Hx Hdw Hdz Hrep)|].
      destruct Hdest as [Hdm|Hda]; [lia|].
      set (c := calc_share (sh_share sh) inflow) in *.
      destruct (calc_share_spec (sh_share sh) inflow Hin) as [Hcw Hca]. fold c in Hcw, Hca. rewrite Hpos in Hca.
      assert (Hcz : dc_nz c) by apply calc_share_nz.
      assert (Hcn : forall d, 0 <= dc_amt d c) by (intros d; apply calc_share_nn; assumption).
      destruct (dc_sub dflt c) as [dflt1| |] eqn:Es; try discriminate.
      destruct (dc_sub_spec dflt c dflt1 Hdw Hcw Es) as [Hd1w Hd1a].
      pose proof (dc_sub_nz dflt c dflt1 Hdz Hcz Es) as Hd1z.
      destruct (dc_is_zero c) eqn:Ez.
      + assert (Hc0 : forall d, dc_amt d c = 0) by (apply dc_is_zero_amt; exact Ez).
        destruct (IH sts dflt1 evs sts' dflt' evs' (fun d => a_credit (sh_dest sh) (dc_amt d c) (st d)) infl H Hok' Hx Hd1w Hd1z) as (A & B & C & D).
        { intros d. rewrite Hc0. apply rep_credit_zero. apply Hrep. }
        split; [exact A|]. split; [exact B|]. split; [exact C|]. intros d. destruct (D d) as [D1 D2]. destruct (Hd1a d) as [Hd1 _].
        rewrite <- Hca. rewrite Hd1 in D1, D2. split; [exact D1|].
        replace (infl d - (dc_amt d dflt - dc_amt d dflt')) with (infl d - (dc_amt d dflt - dc_amt d c - dc_amt d dflt')) by (rewrite Hc0; lia). exact D2.
      + destruct (add_share_to_account sts (sh_dest sh) c) as [sts1| |] eqn:Ea; try discriminate.
        destruct (credit_acct _ _ _ _ _ st infl Hda Ea Hx Hcw Hcz Hcn Hrep) as [Hx1 Hrep1].
        destruct (IH sts1 dflt1 _ sts' dflt' evs' (fun d => a_credit (sh_dest sh) (dc_amt d c) (st d)) (fun d => infl d - dc_amt d c) H Hok' Hx1 Hd1w Hd1z Hrep1) as (A & B & C & D).
        split; [exact A|]. split; [exact B|]. split; [exact C|]. intros d. destruct (D d) as [D1 D2]. destruct (Hd1a d) as [Hd1 _].
        rewrite <- Hca. rewrite Hd1 in D1, D2. split; [exact D1|].
        replace (infl d - (dc_amt d dflt - dc_amt d dflt')) with (infl d - dc_amt d c - (dc_amt d dflt - dc_amt d c - dc_amt d dflt')) by lia. exact D2.
  Qed.

  (* ------------------------------------------------------------------ one sub-distributor's distribution *)
  Definition a_dist (sd : subdist) (inflow : Z) (st1 : aled) : aled :=
    let '(st2, dflt1) := a_shares (sd_shares sd) inflow st1 inflow in
    let cb := dec_mul_trunc inflow (sd_burn sd) in
    a_credit (sd_primary sd) (dflt1 - cb) {| aL := aL st2; aB := aB st2 + cb; aU := aU st2 |}.

  Lemma a_sub_unfold sd st : a_sub sd st = let '(inflow, st1) := a_take_all (sd_sources sd) st 0 in a_dist sd inflow st1.
  Proof. unfold a_sub, a_dist. destruct (a_take_all (sd_sources sd) st 0) as [i st1]. reflexivity. Qed.

  Definition sd_dests_ok (sd : subdist) : Prop :=
    Forall share_ok (sd_shares sd) /\ 0 <= sd_burn sd /\ (da_type (sd_primary sd) = T_MAIN \/ Acct (sd_primary sd)).

  Lemma sd_effect sd inflow sts b sts' evs (st1 : Z -> aled) :
    start_distribution sd inflow sts bk = Ok (sts', evs) -> sd_dests_ok sd ->
    dc_wf inflow -> dc_nz inflow -> (forall d, 0 <= dc_amt d inflow) -> dc_is_zero inflow = false ->
    xinv sts b -> (forall d, RepF d (st1 d) sts b (dc_amt d inflow)) ->
    xinv sts' b /\ forall d, RepF d (a_dist sd (dc_amt d inflow) (st1 d)) sts' b 0.
  Proof.
    intros H (Hsh & Hb & Hp) Hin Hiz Hinn Hnz Hx Hrep.
    pose proof (dc_all_positive_intro inflow Hin Hiz Hinn Hnz) as Hpos.
    unfold start_distribution in H.
    destruct (distribute_shares (sd_shares sd) inflow sts inflow []) as [[[sts1 dflt1] evs1]| |] eqn:Ed; try discriminate.
    destruct (dist_shares_effect inflow b Hin Hpos _ _ _ _ _ _ _ st1 (fun d => dc_amt d inflow) Ed Hsh Hx Hin Hiz Hrep) as (Hx1 & Hd1w & Hd1z & Hd1).
    set (cb := calc_share (sd_burn sd) inflow) in *.
    destruct (calc_share_spec (sd_burn sd) inflow Hin) as [Hcbw Hcba]. fold cb in Hcbw, Hcba. rewrite Hpos in Hcba.
    assert (Hcbz : dc_nz cb) by apply calc_share_nz.
    assert (Hcbn : forall d, 0 <= dc_amt d cb) by (intros d; apply calc_share_nn; assumption).
    destruct (dc_sub dflt1 cb) as [dflt2| |] eqn:Es; try discriminate.
    destruct (dc_sub_spec dflt1 cb dflt2 Hd1w Hcbw Es) as [Hd2w Hd2a].
    pose proof (dc_sub_nz dflt1 cb dflt2 Hd1z Hcbz Es) as Hd2z.
    (* after the shares and the burn *)
    set (stB := fun d => {| aL := aL (fst (a_shares (sd_shares sd) (dc_amt d inflow) (st1 d) (dc_amt d inflow)));
                            aB := aB (fst (a_shares (sd_shares sd) (dc_amt d inflow) (st1 d) (dc_amt d inflow))) + dc_amt d cb;
                            aU := aU (fst (a_shares (sd_shares sd) (dc_amt d inflow) (st1 d) (dc_amt d inflow))) |}).
    assert (Hfin : forall d, a_dist sd (dc_amt d inflow) (st1 d) = a_credit (sd_primary sd) (dc_amt d dflt2) (stB d)).
    { intros d. unfold a_dist, stB. destruct (Hd1 d) as [D1 _]. destruct (Hd2a d) as [Hd2 _].
      destruct (a_shares (sd_shares sd) (dc_amt d inflow) (st1 d) (dc_amt d inflow)) as [s2 df1] eqn:Ea. cbn [fst snd] in *.
      rewrite <- Hcba. rewrite Hd2, D1. reflexivity. }
    assert (Tail : forall sts2 (e2 : list devent), xinv sts2 b -> (forall d, RepF d (stB d) sts2 b (dc_amt d dflt2)) ->
              (if da_type (sd_primary sd) =? T_MAIN then Ok (sts2, e2)
               else match add_share_to_account sts2 (sd_primary sd) dflt2 with Ok sts3 => Ok (sts3, evs) | Err => Err | Panic => Panic end) = Ok (sts', evs) ->
              xinv sts' b /\ forall d, RepF d (a_dist sd (dc_amt d inflow) (st1 d)) sts' b 0).
    { intros sts2 e2 Hx2 Hr2 H2. destruct (da_type (sd_primary sd) =? T_MAIN) eqn:Em.
      - injection H2 as <- _. split; [exact Hx2|]. intros d. rewrite Hfin. destruct (Hr2 d) as (R1 & R2 & R3).
        unfold a_credit. rewrite Em. split; [exact R1|]. split; [exact R2|]. cbn [aU]. lia.
      - destruct Hp as [Hpm|Hpa]; [lia|].
        destruct (add_share_to_account sts2 (sd_primary sd) dflt2) as [sts3| |] eqn:Ea; try discriminate.
        injection H2 as <-.
        destruct (credit_acct _ _ _ _ _ stB (fun d => dc_amt d dflt2) Hpa Ea Hx2 Hd2w Hd2z (fun d => proj2 (Hd2a d)) Hr2) as [Hx3 Hr3].
        split; [exact Hx3|]. intros d. rewrite Hfin. specialize (Hr3 d). replace (dc_amt d dflt2 - dc_amt d dflt2) with 0 in Hr3 by lia. exact Hr3. }
    destruct (dc_is_zero cb) eqn:Ez.
    - apply (Tail sts1 evs).
      + exact Hx1.
      + intros d. destruct (Hd1 d) as [D1 (R1 & R2 & R3)].
        pose proof (dc_is_zero_amt cb Ez d) as Hc0. destruct (Hd2a d) as [Hd2 _]. unfold stB. rewrite Hc0.
        split; [exact R1|]. split; [cbn [aB]; rewrite R2; lia|]. cbn [aU]. rewrite Hd2, Hc0. lia.
      + destruct (da_type (sd_primary sd) =? T_MAIN); [injection H as <- <-; reflexivity|].
        destruct (add_share_to_account sts1 (sd_primary sd) dflt2); inversion H; reflexivity.
    - destruct (credit_burn cb sts1 b _ _ Hx1 Hcbw Hcbz Hcbn (fun d => proj2 (Hd1 d))) as [Hx2 Hr2].
      apply (Tail (add_share_to_burn sts1 bk cb) evs).
      + exact Hx2.
      + intros d. destruct (Hd2a d) as [Hd2 _]. specialize (Hr2 d). unfold stB.
        replace (dc_amt d dflt2) with (dc_amt d inflow - (dc_amt d inflow - dc_amt d dflt1) - dc_amt d cb) by lia. exact Hr2.
      + destruct (da_type (sd_primary sd) =? T_MAIN); [injection H as <- <-; reflexivity|].
        destruct (add_share_to_account (add_share_to_burn sts1 bk cb) (sd_primary sd) dflt2); inversion H; reflexivity.
  Qed.

  (* ------------------------------------------------------------------ a sub-distributor without inflow *)
  Lemma dec_mul_trunc_zero s : dec_mul_trunc 0 s = 0. Proof. reflexivity. Qed.

  Lemma a_shares_zero d sts b i : forall shares st, RepF d st sts b i ->
    RepF d (fst (a_shares shares 0 st 0)) sts b i /\ snd (a_shares shares 0 st 0) = 0.
  Proof.
    induction shares as [|sh t IH]; intros st Hr; cbn [a_shares fst snd]; [split; [exact Hr|reflexivity]|].
    destruct (da_type (sh_dest sh) =? T_MAIN); [apply IH; exact Hr|].
    rewrite dec_mul_trunc_zero. replace (0 - 0) with 0 by lia. apply IH. apply rep_credit_zero. exact Hr.
  Qed.

  Lemma a_dist_zero d sd st sts b i : RepF d st sts b i -> RepF d (a_dist sd 0 st) sts b i.
  Proof.
    intros Hr. unfold a_dist. destruct (a_shares_zero d sts b i (sd_shares sd) st Hr) as [H1 H2].
    destruct (a_shares (sd_shares sd) 0 st 0) as [st2 df] eqn:E. cbn [fst snd] in H1, H2. subst df.
    rewrite dec_mul_trunc_zero. replace (0 - 0) with 0 by lia. apply rep_credit_zero.
    destruct H1 as (R1 & R2 & R3). split; [exact R1|]. split; [cbn [aB]; lia|exact R3].
  Qed.

  (* ------------------------------------------------------------------ all sub-distributors (no bank failure while sweeping) *)
  Definition sd_full_ok (sd : subdist) : Prop := srcs_ok (sd_sources sd) /\ sd_dests_ok sd /\ sd_shares_ok sd.

  Lemma srcs_ok_in_order srcs : srcs_ok srcs -> sources_in_order srcs.
  Proof.
    destruct srcs as [|s t]; [exact (fun _ => I)|]. intros [H1 H2]. split.
    - destruct H1 as [Hm|Ha]; [left; exact Hm|right; split; [apply acct_type; exact Ha|apply acct_addr; exact Ha]].
    - eapply Forall_impl; [|exact H2]. intros a Ha. split; [apply acct_type; exact Ha|apply acct_addr; exact Ha].
  Qed.

  Lemma run_subs_effect subs : forall sts b evs (st : Z -> aled),
    Forall sd_full_ok subs -> xinv sts b -> bk_faults b = [] -> (forall d, 0 <= unbooked sts b d) -> (forall d, RepF d (st d) sts b 0) ->
    exists sts' b' evs', run_subs subs sts b bk evs = Ok (sts', b', evs') /\ xinv sts' b' /\ bk_faults b' = [] /\
      (forall d, 0 <= unbooked sts' b' d) /\ forall d, RepF d (a_block subs (st d)) sts' b' 0.
  Proof.
    induction subs as [|sd t IH]; intros sts b evs st Hok Hx Hf Hu Hrep; cbn [run_subs a_block fold_left].
    - exists sts, b, evs. split; [reflexivity|]. split; [exact Hx|]. split; [exact Hf|]. split; [exact Hu|exact Hrep].
    - inversion Hok as [|? ? (Hso & Hde & Hsh) Hok']; subst.
      destruct (take_all (sd_sources sd) sts b st Hso Hx Hf Hu Hrep) as (inflow & sts1 & b1 & E1 & Hx1 & Hf1 & Hiw & Hiz & Hin & Hc).
      destruct (prepare_all_books (sd_sources sd) sts b (x_inv _ _ Hx) (srcs_ok_in_order _ Hso) Hu) as (c' & s1' & b1' & E1' & _ & _ & _ & Hu1).
      rewrite E1 in E1'. injection E1' as <- <- <-. rewrite E1.
      assert (Hbase : forall d, 0 <= (if main_is_source (sd_sources sd) then 0 else unbooked sts b d)).
      { intros d. destruct (main_is_source (sd_sources sd)); [lia | apply Hu]. }
      assert (Hsub : forall d, a_block t (a_sub sd (st d)) = a_block t (a_dist sd (dc_amt d inflow) (snd (a_take_all (sd_sources sd) (st d) 0)))).
      { intros d. rewrite a_sub_unfold. destruct (Hc d) as [Hc1 _]. destruct (a_take_all (sd_sources sd) (st d) 0) as [i s1] eqn:Et. cbn [fst snd] in *. subst i. reflexivity. }
      destruct (dc_is_zero inflow) eqn:Ez.
      + pose proof (dc_is_zero_amt inflow Ez) as Hin0.
        destruct (IH sts1 b1 evs (fun d => a_dist sd (dc_amt d inflow) (snd (a_take_all (sd_sources sd) (st d) 0))) Hok' Hx1 Hf1) as (sts' & b' & evs' & E' & A & B & C & D).
        * intros d. rewrite Hu1, Hin0. specialize (Hbase d). lia.
        * intros d. rewrite Hin0. apply a_dist_zero. destruct (Hc d) as [_ Hc2]. rewrite Hin0 in Hc2. exact Hc2.
        * exists sts', b', evs'. split; [exact E'|]. split; [exact A|]. split; [exact B|]. split; [exact C|]. intros d. fold (a_block t (a_sub sd (st d))). rewrite Hsub. apply D.
      + destruct (start_distribution_books sd inflow sts1 b1 bk (x_inv _ _ Hx1) Hiw Hin Hsh) as (sts2 & e & E2 & _ & ub & Hub). rewrite E2.
        destruct (sd_effect sd inflow sts1 b1 sts2 e (fun d => snd (a_take_all (sd_sources sd) (st d) 0)) E2 Hde Hiw Hiz Hin Ez Hx1 (fun d => proj2 (Hc d))) as [Hx2 Hr2].
        destruct (IH sts2 b1 (evs ++ [(sd_name sd, (0, 0, inflow) :: e)]) (fun d => a_dist sd (dc_amt d inflow) (snd (a_take_all (sd_sources sd) (st d) 0))) Hok' Hx2 Hf1) as (sts' & b' & evs' & E' & A & B & C & D).
        * intros d. destruct (Hub d) as (U1 & U2 & _). rewrite U2, Hu1. specialize (Hbase d). lia.
        * exact Hr2.
        * exists sts', b', evs'. split; [exact E'|]. split; [exact A|]. split; [exact B|]. split; [exact C|]. intros d. fold (a_block t (a_sub sd (st d))). rewrite Hsub. apply D.
  Qed.

  (* ------------------------------------------------------------------ a payout attempt *)
  Definition other_addr (s : dstate) (x : Z) : Prop :=
    match st_acc s with Some a => da_type a <> T_INTERNAL -> x <> da_addr a | None => True end.

  Lemma payout_frame s b s' b' :
    dc_wf (st_rem s) -> (forall d, 0 <= dc_amt d (st_rem s)) -> state_plain s ->
    bal_wf (bk_bal b) -> dc_wf (bk_burned b) -> nzb b -> (forall d, dc_amt d (st_rem s) <= mainbal b d * P) ->
    payout s b = Ok (s', b') ->
    dc_nz (st_rem s) -> dc_nz (st_rem s') /\ nzb b' /\
    (st_burn s = false -> bk_burned b' = bk_burned b) /\
    (forall x, x <> MAINADDR ->
       (st_burn s = false -> other_addr s x) -> bal_of (bk_bal b') x = bal_of (bk_bal b) x).
  Proof.
    intros Hrw Hrn Hpl Hbw Hbu Hnzb Hcov H Hrz. unfold payout in H. unfold state_plain in Hpl.
    destruct (st_acc s) as [a|] eqn:Ea; [|discriminate].
    destruct (negb (da_type a =? T_INTERNAL) && dc_any_gte1 (st_rem s)) eqn:Eg.
    2:{ injection H as <- <-. split; [exact Hrz|]. split; [exact Hnzb|]. split; [reflexivity|]. intros; reflexivity. }
    destruct (dc_trunc (st_rem s)) as [to_send change] eqn:Et.
    destruct (dc_trunc_spec _ Hrw) as (Hsw & Hcw & Htr). destruct (dc_trunc_nz (st_rem s)) as [Hsz Hcz].
    rewrite Et in Hsw, Hcw, Htr, Hsz, Hcz. cbn [fst snd] in *.
    pose proof P_pos as HP.
    assert (Hsend : forall d, 0 <= dc_amt d to_send <= dc_amt d (bal_of (bk_bal b) MAINADDR)).
    { intros d0. destruct (Htr d0) as [Hs1 _]. rewrite Hs1. specialize (Hrn d0). specialize (Hcov d0). unfold mainbal in Hcov.
      rewrite chop_trunc_nonneg by exact Hrn. split; [apply Z.div_pos; lia|]. apply Z.div_le_upper_bound; lia. }
    apply andb_true_iff in Eg as [Eg1 _].
    assert (Hnz' : forall (ok : bool) (s0 : dstate), dc_nz (st_rem (if ok then set_rem change s else s))).
    { intros ok _. destruct ok; [cbn [set_rem st_rem]; exact Hcz|exact Hrz]. }
    destruct (st_burn s) eqn:Eb.
    - destruct (burn b MAINADDR to_send) as [ok b1] eqn:Ebn. injection H as <- <-.
      split; [apply (Hnz' ok s)|].
      unfold burn in Ebn. destruct (next_fault b) as [f b0] eqn:En.
      pose proof (next_fault_bal b) as [Hb1 Hb2]. rewrite En in Hb1, Hb2. cbn [snd] in Hb1, Hb2.
      destruct f; injection Ebn as <- <-.
      + assert (Hfd : failed_debit b0 MAINADDR to_send = b0) by (apply failed_debit_covered; rewrite ?Hb1; [apply Hbw | exact Hsw | exact Hsend]).
        rewrite Hfd. split; [destruct Hnzb as [N1 N2]; split; [intros x; rewrite Hb1; apply N1|rewrite Hb2; exact N2]|].
        split; [discriminate|]. intros x _ _. rewrite Hb1. reflexivity.
      + split.
        { destruct Hnzb as [N1 N2]. split.
          - intros x. cbn [bk_bal]. rewrite Hb1. destruct (Z.eq_dec x MAINADDR) as [->|Hx]; [rewrite bal_of_aset_same; apply dc_add_nz; [apply N1|apply dc_neg_nz; exact Hsz]|rewrite bal_of_aset_other by exact Hx; apply N1].
          - cbn [bk_burned]. rewrite Hb2. apply dc_add_nz; assumption. }
        split; [discriminate|]. intros x Hx _. cbn [bk_bal]. rewrite Hb1. rewrite bal_of_aset_other by exact Hx. reflexivity.
    - assert (Hne : MAINADDR <> da_addr a) by (intros E; apply (Hpl eq_refl); [lia | symmetry; exact E]).
      destruct (transfer b MAINADDR (da_addr a) to_send) as [ok b1] eqn:Etr. injection H as <- <-.
      split; [apply (Hnz' ok s)|].
      destruct (transfer_effect _ _ _ _ _ _ Etr Hne Hbw Hsw Hsend) as (T1 & T2 & T3 & T4 & T5).
      split.
      { unfold transfer in Etr. destruct (next_fault b) as [f b0] eqn:En.
        pose proof (next_fault_bal b) as [Hb1 Hb2]. rewrite En in Hb1, Hb2. cbn [snd] in Hb1, Hb2. destruct Hnzb as [N1 N2].
        destruct f; injection Etr as <- <-.
        - assert (Hfd : failed_debit b0 MAINADDR to_send = b0) by (apply failed_debit_covered; rewrite ?Hb1; [apply Hbw | exact Hsw | exact Hsend]).
          rewrite Hfd. split; [intros x; rewrite Hb1; apply N1|rewrite Hb2; exact N2].
        - split; [|cbn [bk_burned]; rewrite Hb2; exact N2]. intros x. cbn [bk_bal]. rewrite Hb1.
          destruct (Z.eq_dec x (da_addr a)) as [->|Hx1].
          + rewrite bal_of_aset_same. apply dc_add_nz; [|exact Hsz]. rewrite bal_of_aset_other by (intros E; apply Hne; symmetry; exact E). apply N1.
          + rewrite bal_of_aset_other by exact Hx1. destruct (Z.eq_dec x MAINADDR) as [->|Hx2].
            * rewrite bal_of_aset_same. apply dc_add_nz; [apply N1|apply dc_neg_nz; exact Hsz].
            * rewrite bal_of_aset_other by exact Hx2. apply N1. }
      split; [intros _; exact T1|]. intros x Hx Hx2. apply T3; [exact Hx|]. specialize (Hx2 eq_refl). unfold other_addr in Hx2. rewrite Ea in Hx2. apply Hx2. lia.
  Qed.

  Lemma lkeyed_plain s : lkeyed s -> state_plain s.
  Proof.
    unfold lkeyed, state_plain. destruct (st_acc s) as [a|]; [|intros []]. destruct (st_burn s); [intros _ E; discriminate E|].
    intros [_ Ha] _ Hi. apply acct_addr; assumption.
  Qed.

  Lemma remk_mid k d pre s t : remk k d (pre ++ s :: t) = remk k d pre + (if st_key s =? k then dc_amt d (st_rem s) else 0) + remk k d t.
  Proof. rewrite remk_app, remk_cons. lia. Qed.

  (* ------------------------------------------------------------------ the payout phase: any failures *)
  Lemma payout_all_effect d sts : forall b pre (st : aled),
    xinv (pre ++ sts) b -> (forall d, 0 <= unbooked (pre ++ sts) b d) -> RepF d st (pre ++ sts) b 0 ->
    exists sts' b', payout_all sts b = Ok (sts', b') /\ xinv (pre ++ sts') b' /\ Forall2 same_sig sts sts' /\
      (forall d, unbooked (pre ++ sts') b' d = unbooked (pre ++ sts) b d) /\ RepF d st (pre ++ sts') b' 0.
  Proof.
    induction sts as [|s t IH]; intros b pre st Hx Hu Hrep; cbn [payout_all].
    - exists [], b. split; [reflexivity|]. split; [exact Hx|]. split; [constructor|]. split; [reflexivity|exact Hrep].
    - destruct Hx as [Hi [Hk Hn] Hzs Hzb].
      pose proof (proj1 (Forall_app _ _ _) (i_wf _ _ Hi)) as [Hwp Hwst]. inversion Hwst as [|? ? Hws Hwt]; subst.
      pose proof (proj1 (Forall_app _ _ _) (i_nn _ _ Hi)) as [Hnp Hnst]. inversion Hnst as [|? ? Hns Hnt]; subst.
      pose proof (proj1 (Forall_app _ _ _) Hk) as [Hkp Hkst]. inversion Hkst as [|? ? Hks Hkt]; subst.
      pose proof (proj1 (Forall_app _ _ _) Hzs) as [Hzp Hzst]. inversion Hzst as [|? ? Hzs1 Hzt]; subst.
      assert (Hacc : has_acc s) by (unfold lkeyed in Hks; unfold has_acc; destruct (st_acc s); [discriminate|contradiction]).
      pose proof (lkeyed_plain s Hks) as Hpl.
      assert (Hcov : forall d, dc_amt d (st_rem s) <= mainbal b d * P).
      { intros d0. specialize (Hu d0). unfold unbooked in Hu. rewrite remsum_app, remsum_cons in Hu.
        pose proof (remsum_nonneg d0 pre Hnp). pose proof (remsum_nonneg d0 t Hnt). lia. }
      destruct (payout_books s b Hws Hns Hacc Hpl (i_bwf _ _ Hi) (i_bnn _ _ Hi) (i_burned _ _ Hi) Hcov)
        as (s' & b1 & E & Hw' & Hn' & Eacc & Eburn & Ekey & Hbw1 & Hbn1 & Hbu1 & Hm).
      rewrite E.
      destruct (payout_frame s b s' b1 Hws Hns Hpl (i_bwf _ _ Hi) (i_burned _ _ Hi) Hzb Hcov E Hzs1) as (Hz' & Hzb1 & Fb & Fx).
      pose proof (payout_keeps_credited s b Hws Hns Hacc Hpl (i_bwf _ _ Hi) (i_bnn _ _ Hi) (i_burned _ _ Hi) Hcov s' b1 E d) as Hcred.
      assert (Hks' : lkeyed s') by (unfold lkeyed in *; rewrite Eacc, Eburn, Ekey; exact Hks).
      assert (Hx1 : xinv ((pre ++ [s']) ++ t) b1).
      { rewrite <- app_assoc. cbn [app]. constructor.
        - constructor; [apply Forall_app; split; [exact Hwp|constructor; assumption] | apply Forall_app; split; [exact Hnp|constructor; assumption]
                        | | exact Hbw1 | exact Hbn1 | exact Hbu1].
          apply lkeyed_has_acc. apply Forall_app. split; [exact Hkp|constructor; assumption].
        - split; [apply Forall_app; split; [exact Hkp|constructor; assumption]|].
          rewrite map_app in *. cbn [map] in *. rewrite Ekey. exact Hn.
        - apply Forall_app. split; [exact Hzp|constructor; assumption].
        - exact Hzb1. }
      assert (Hu1 : forall d0, unbooked ((pre ++ [s']) ++ t) b1 d0 = unbooked (pre ++ s :: t) b d0).
      { intros d0. unfold unbooked. rewrite <- app_assoc. cbn [app]. rewrite !remsum_app, !remsum_cons. destruct (Hm d0) as [Hm1 _]. lia. }
      assert (Hrep1 : RepF d st ((pre ++ [s']) ++ t) b1 0).
      { destruct Hrep as (R1 & R2 & R3). rewrite <- app_assoc. cbn [app]. split; [|split].
        - intros a Ha. rewrite (R1 a Ha). unfold ledA. rewrite !remk_mid, Ekey.
          unfold credited in Hcred. rewrite Eacc, Eburn in Hcred. unfold lkeyed in Hks.
          destruct (st_acc s) as [a0|] eqn:Ea0; [|contradiction].
          destruct (st_burn s) eqn:Eb.
          + destruct Hks as [Hkey _]. replace (st_key s =? da_key a) with false by (pose proof (acct_bk a Ha); lia).
            destruct (da_type a =? T_INTERNAL) eqn:Ei; [lia|]. rewrite Fx; [lia | apply acct_addr; [exact Ha|lia] | discriminate].
          + destruct Hks as [Hkey Ha0]. destruct (st_key s =? da_key a) eqn:Ek.
            * assert (Ekk : da_key a0 = da_key a) by lia. destruct (key_same a0 a Ha0 Ha Ekk) as [Et Ead]. rewrite <- Et, <- Ead.
              destruct (da_type a0 =? T_INTERNAL) eqn:Ei; [|lia].
              (* internal accounts are never paid *)
              unfold payout in E. rewrite Ea0 in E. rewrite Ei in E. cbn [negb andb] in E. injection E as <- <-. lia.
            * destruct (da_type a =? T_INTERNAL) eqn:Ei; [lia|]. rewrite Fx; [lia | apply acct_addr; [exact Ha|lia] |].
              intros _. unfold other_addr. rewrite Ea0. intros Hi0 Heq.
              assert (da_key a = da_key a0) by (apply addr_key; try assumption; lia). lia.
        - rewrite R2. unfold ledB. rewrite !remk_mid, Ekey.
          unfold credited in Hcred. rewrite Eacc, Eburn in Hcred. unfold lkeyed in Hks.
          destruct (st_acc s) as [a0|] eqn:Ea0; [|contradiction].
          destruct (st_burn s) eqn:Eb.
          + destruct Hks as [Hkey _]. rewrite Hkey, Z.eqb_refl. lia.
          + destruct Hks as [Hkey Ha0]. replace (st_key s =? bk) with false by (pose proof (acct_bk a0 Ha0); lia).
            rewrite (Fb eq_refl). lia.
        - pose proof (Hu1 d) as Hd. rewrite <- app_assoc in Hd. cbn [app] in Hd. rewrite Hd. exact R3. }
      destruct (IH b1 (pre ++ [s']) st Hx1) as (t' & b2 & E2 & Hx2 & Hs2 & Hu2 & Hr2).
      + intros d0. rewrite Hu1. apply Hu.
      + exact Hrep1.
      + rewrite E2. exists (s' :: t'), b2. split; [reflexivity|].
        rewrite <- app_assoc in Hx2, Hu2, Hr2. cbn [app] in Hx2, Hu2, Hr2.
        split; [exact Hx2|]. split; [constructor; [split; [exact Eacc|split; [exact Eburn|exact Ekey]]|exact Hs2]|].
        split; [|exact Hr2]. intros d0. rewrite Hu2. rewrite <- (Hu1 d0). rewrite <- app_assoc. reflexivity.
  Qed.

  (* ------------------------------------------------------------------ facts that do not look at the failure list *)
  Lemma xinv_any_bank sts b b' : bk_bal b' = bk_bal b -> bk_burned b' = bk_burned b -> xinv sts b -> xinv sts b'.
  Proof.
    intros E1 E2 [[A B C D0 E F] L Zs [Z1 Z2]]. constructor; [constructor; try assumption; rewrite ?E1, ?E2; assumption|exact L|exact Zs|].
    split; [intros a; rewrite E1; apply Z1|rewrite E2; exact Z2].
  Qed.
  Lemma RepF_any_bank d st sts b b' i : bk_bal b' = bk_bal b -> bk_burned b' = bk_burned b -> RepF d st sts b i -> RepF d st sts b' i.
  Proof. intros E1 E2 (R1 & R2 & R3). unfold RepF, ledA, ledB, unbooked, mainbal in *. rewrite E1, E2. auto. Qed.
  Lemma unbooked_any_bank sts b b' d : bk_bal b' = bk_bal b -> unbooked sts b' d = unbooked sts b d.
  Proof. intros E. unfold unbooked, mainbal. rewrite E. reflexivity. Qed.

  Lemma xinv_perm sts sts' b : Permutation sts' sts -> xinv sts b -> xinv sts' b.
  Proof.
    intros Hp [[A B C D0 E F] [K N] Zs Zb]. symmetry in Hp.
    constructor; [constructor; try assumption; eapply Permutation_Forall; eassumption| |eapply Permutation_Forall; eassumption|exact Zb].
    split; [eapply Permutation_Forall; eassumption|]. eapply Permutation_NoDup; [apply Permutation_map; exact Hp|exact N].
  Qed.
  Lemma RepF_perm d st sts sts' b i : Permutation sts' sts -> RepF d st sts b i -> RepF d st sts' b i.
  Proof.
    intros Hp (R1 & R2 & R3). unfold RepF, ledA, ledB, unbooked in *.
    split; [intros a Ha; rewrite (R1 a Ha), (remk_perm _ d _ _ Hp); reflexivity|].
    split; [rewrite R2, (remk_perm _ d _ _ Hp); reflexivity|]. rewrite R3, (remsum_perm d _ _ Hp). reflexivity.
  Qed.

  Lemma lkeyed_keyed sts : Forall lkeyed sts -> Forall (keyed bk Acct) sts.
  Proof.
    intros H. eapply Forall_impl; [|exact H]. intros s Hs. unfold lkeyed in Hs. unfold keyed.
    destruct (st_acc s); [|exact Hs]. destruct (st_burn s); tauto.
  Qed.

  Lemma sd_dests_in sd : sd_dests_ok sd -> dests_in Acct sd.
  Proof.
    intros (Hs & _ & Hp). split.
    - eapply Forall_impl; [|exact Hs]. intros sh [_ [Hm|Ha]] Hn; [contradiction|exact Ha].
    - intros Hn. destruct Hp as [Hm|Ha]; [contradiction|exact Ha].
  Qed.

  (* ------------------------------------------------------------------ one BeginBlock *)
  Definition wbank (w : dworld) : bank := {| bk_bal := dw_bal w; bk_burned := dw_burned w; bk_faults := []; bk_calls := 0 |}.

  Record lwinv (w : dworld) : Prop := {
    lw_x : xinv (dw_states w) (wbank w);
    lw_sorted : ksorted (dw_states w);
    lw_bk : dw_burnkey w = bk;
    lw_cfg : Forall sd_full_ok (dw_subs w);
    lw_unb : forall d, 0 <= unbooked (dw_states w) (wbank w) d }.

  Definition LRep (d : Z) (st : aled) (w : dworld) : Prop := RepF d st (dw_states w) (wbank w) 0.

  (* whatever payouts and burns fail: the block completes, the invariants are kept, and what every account has been credited
     afterwards is what the credited-amounts machine computes from what it had been credited before *)
  Theorem block_refines_ledger w (st : Z -> aled) payout_faults :
    lwinv w -> (forall d, LRep d (st d) w) ->
    exists w' evs, block_split w payout_faults = Ok (w', evs) /\ lwinv w' /\ dw_subs w' = dw_subs w /\
      forall d, LRep d (a_block (dw_subs w) (st d)) w'.
  Proof.
    intros [Hx Hs Hbk Hcfg Hu] Hrep. unfold block_split. fold (wbank w). rewrite Hbk.
    destruct (run_subs_effect (dw_subs w) (dw_states w) (wbank w) [] st Hcfg Hx eq_refl Hu Hrep) as (sts & b1 & evs & E1 & Hx1 & Hf1 & Hu1 & Hr1).
    rewrite E1.
    set (b1' := {| bk_bal := bk_bal b1; bk_burned := bk_burned b1; bk_faults := payout_faults; bk_calls := bk_calls b1 |}).
    assert (Hx1' : xinv ([] ++ sts) b1') by (cbn [app]; eapply xinv_any_bank; [| |exact Hx1]; reflexivity).
    assert (Hu1' : forall d, 0 <= unbooked ([] ++ sts) b1' d) by (intros d; cbn [app]; rewrite (unbooked_any_bank sts b1 b1' d eq_refl); apply Hu1).
    assert (Hr1' : forall d, RepF d (a_block (dw_subs w) (st d)) ([] ++ sts) b1' 0) by (intros d; cbn [app]; eapply RepF_any_bank; [| |apply Hr1]; reflexivity).
    destruct (payout_all_effect 0 sts b1' [] _ Hx1' Hu1' (Hr1' 0)) as (sts' & b2 & E2 & Hx2 & Hsig & Hu2 & _).
    rewrite E2. cbn [app] in Hx2, Hu2.
    eexists _, evs. split; [reflexivity|].
    (* the store *)
    pose proof (evolves_run_subs Acct bk _ _ _ _ _ _ _ E1 (Forall_impl _ (fun sd H => sd_dests_in sd (proj1 (proj2 H))) Hcfg)) as Hev.
    destruct (evolves_keys Acct bk Acct acct_bk (fun a a' Ha Ha' E => proj1 (key_id a a' Ha Ha') E) (fun a H => H) _ _ Hev
                (lkeyed_keyed _ (proj1 (x_lin _ _ Hx))) (proj2 (x_lin _ _ Hx))) as (_ & _ & nk & Hpre).
    pose proof (same_sig_keys _ _ Hsig) as Hkeys.
    destruct (store_all_perm sts' (dw_states w) nk Hs ltac:(rewrite Hkeys; exact Hpre) (proj2 (x_lin _ _ Hx2))) as [Hsorted Hperm].
    assert (Hxf : xinv (store_all sts' (dw_states w)) {| bk_bal := bk_bal b2; bk_burned := bk_burned b2; bk_faults := []; bk_calls := 0 |}).
    { eapply xinv_any_bank; [| |eapply xinv_perm; [exact Hperm|exact Hx2]]; reflexivity. }
    split; [|split; [reflexivity|]].
    - constructor; cbn [dw_states dw_bal dw_burned dw_burnkey dw_subs]; unfold wbank; cbn [dw_states dw_bal dw_burned].
      + exact Hxf.
      + exact Hsorted.
      + reflexivity.
      + exact Hcfg.
      + intros d. unfold unbooked, mainbal. cbn [bk_bal]. rewrite (remsum_perm d _ _ Hperm).
        pose proof (Hu2 d) as H2. unfold unbooked, mainbal in H2. rewrite H2. apply Hu1'.
    - intros d. unfold LRep, wbank. cbn [dw_states dw_bal dw_burned].
      destruct (payout_all_effect d sts b1' [] _ Hx1' Hu1' (Hr1' d)) as (sts'' & b2' & E2' & _ & _ & _ & Hr2).
      rewrite E2 in E2'. injection E2' as <- <-. cbn [app] in Hr2.
      eapply RepF_any_bank; [| |eapply RepF_perm; [exact Hperm|exact Hr2]]; reflexivity.
  Qed.

  (* ------------------------------------------------------------------ coins arriving between blocks *)
  Lemma inflow_effect w (tgt : option dacct) c (st : Z -> aled) :
    lwinv w -> dc_wf c -> dc_nz c -> (forall d, 0 <= dc_amt d c) ->
    match tgt with Some a => Acct a /\ da_type a <> T_INTERNAL | None => True end ->
    (forall d, LRep d (st d) w) ->
    let addr := match tgt with Some a => da_addr a | None => MAINADDR end in
    lwinv (dist_inflow w addr c) /\
    forall d, LRep d (match tgt with Some a => a_inflow_acct a (dc_amt d c) (st d) | None => a_inflow_main (dc_amt d c) (st d) end) (dist_inflow w addr c).
  Proof.
    intros [Hx Hs Hbk Hcfg Hu] Hcw Hcz Hcn Htgt Hrep addr.
    destruct Hx as [Hi Hl Hzs Hzb].
    assert (Hnew : forall x d, dc_amt d (bal_of (aset addr (dc_add (bal_of (dw_bal w) addr) c) (dw_bal w)) x) =
                               dc_amt d (bal_of (dw_bal w) x) + (if x =? addr then dc_amt d c else 0)).
    { intros x d. destruct (x =? addr) eqn:E.
      - assert (x = addr) by lia. subst x. rewrite bal_of_aset_same. rewrite dc_add_amt; [reflexivity|apply (i_bwf _ _ Hi)|exact Hcw].
      - rewrite bal_of_aset_other by lia. lia. }
    assert (Hx' : xinv (dw_states w) (wbank (dist_inflow w addr c))).
    { unfold wbank, dist_inflow. cbn [dw_bal dw_burned]. constructor; [|exact Hl|exact Hzs|].
      - destruct Hi as [A B C D0 E F]. constructor; try assumption.
        + intros x. cbn [bk_bal]. destruct (Z.eq_dec x addr) as [->|Hne]; [rewrite bal_of_aset_same; apply dc_add_wf; [apply D0|exact Hcw]|rewrite bal_of_aset_other by exact Hne; apply D0].
        + intros x d. cbn [bk_bal]. rewrite Hnew. pose proof (E x d) as H0. cbn [wbank bk_bal] in H0. specialize (Hcn d). destruct (x =? addr); lia.
      - destruct Hzb as [Z1 Z2]. split; [|exact Z2]. intros x. cbn [bk_bal].
        destruct (Z.eq_dec x addr) as [->|Hne]; [rewrite bal_of_aset_same; apply dc_add_nz; [apply Z1|exact Hcz]|rewrite bal_of_aset_other by exact Hne; apply Z1]. }
    assert (Hunb : forall d, unbooked (dw_states w) (wbank (dist_inflow w addr c)) d =
                             unbooked (dw_states w) (wbank w) d + (if MAINADDR =? addr then dc_amt d c * P else 0)).
    { intros d. unfold unbooked, mainbal, wbank, dist_inflow. cbn [dw_bal bk_bal]. rewrite Hnew. destruct (MAINADDR =? addr); lia. }
    split.
    - constructor; cbn [dist_inflow dw_states dw_burnkey dw_subs]; try assumption.
      intros d. change (dw_states w) with (dw_states (dist_inflow w addr c)) at 1. cbn [dist_inflow dw_states]. rewrite Hunb. specialize (Hu d). specialize (Hcn d). pose proof P_pos. destruct (MAINADDR =? addr); nia.
    - intros d. destruct (Hrep d) as (R1 & R2 & R3). unfold LRep. cbn [dist_inflow dw_states].
      destruct tgt as [a|].
      + destruct Htgt as [Ha Hni]. subst addr. pose proof (acct_addr a Ha Hni) as Hnm.
        split; [|split].
        * intros a' Ha'. cbn [a_inflow_acct aL]. unfold a_set, ledA. cbn [wbank bk_bal dist_inflow dw_bal]. rewrite Hnew.
          destruct (da_key a' =? da_key a) eqn:Ek.
          -- assert (Ekk : da_key a' = da_key a) by lia. destruct (key_same a' a Ha' Ha Ekk) as [Et Ead]. rewrite Et, Ead, Ekk, Z.eqb_refl.
             rewrite (R1 a Ha). unfold ledA. cbn [wbank bk_bal]. replace (da_type a =? T_INTERNAL) with false by lia. lia.
          -- rewrite (R1 a' Ha'). unfold ledA. cbn [wbank bk_bal]. destruct (da_type a' =? T_INTERNAL) eqn:Ei; [reflexivity|].
             replace (da_addr a' =? da_addr a) with false; [lia|]. symmetry. apply Z.eqb_neq. intros Heq.
             assert (da_key a' = da_key a) by (apply addr_key; try assumption; lia). lia.
        * cbn [a_inflow_acct aB]. rewrite R2. unfold ledB. reflexivity.
        * cbn [a_inflow_acct aU]. rewrite Hunb. replace (MAINADDR =? da_addr a) with false by lia. lia.
      + subst addr. split; [|split].
        * intros a' Ha'. cbn [a_inflow_main aL]. rewrite (R1 a' Ha'). unfold ledA. cbn [wbank bk_bal dist_inflow dw_bal].
          destruct (da_type a' =? T_INTERNAL) eqn:Ei; [reflexivity|]. rewrite Hnew.
          replace (da_addr a' =? MAINADDR) with false by (pose proof (acct_addr a' Ha'); lia). lia.
        * cbn [a_inflow_main aB]. rewrite R2. unfold ledB. reflexivity.
        * cbn [a_inflow_main aU]. rewrite Hunb, Z.eqb_refl. lia.
  Qed.

  (* ------------------------------------------------------------------ histories *)
  Inductive lop :=
  | LInflowMain (c : dcoins)                (* coins arriving at the main account (minted coins, fees) *)
  | LInflowAcct (a : dacct) (c : dcoins)    (* coins arriving at a module / base account of the configuration *)
  | LBlock (payout_faults : list bool).     (* BeginBlock; which payouts and burns fail *)

  Definition lop_ok (o : lop) : Prop :=
    match o with
    | LInflowMain c => dc_wf c /\ dc_nz c /\ forall d, 0 <= dc_amt d c
    | LInflowAcct a c => Acct a /\ da_type a <> T_INTERNAL /\ dc_wf c /\ dc_nz c /\ forall d, 0 <= dc_amt d c
    | LBlock _ => True
    end.

  Definition lstep (w : dworld) (o : lop) : outcome dworld :=
    match o with
    | LInflowMain c => Ok (dist_inflow w MAINADDR c)
    | LInflowAcct a c => Ok (dist_inflow w (da_addr a) c)
    | LBlock pf => match block_split w pf with Ok (w', _) => Ok w' | Err => Err | Panic => Panic end
    end.
  Fixpoint lrun (w : dworld) (ops : list lop) : outcome dworld :=
    match ops with [] => Ok w | o :: t => match lstep w o with Ok w' => lrun w' t | Err => Err | Panic => Panic end end.

  (* the same history on credited amounts (one denomination): the failure lists are not looked at *)
  Definition a_step (subs : list subdist) (d : Z) (st : aled) (o : lop) : aled :=
    match o with
    | LInflowMain c => a_inflow_main (dc_amt d c) st
    | LInflowAcct a c => a_inflow_acct a (dc_amt d c) st
    | LBlock _ => a_block subs st
    end.
  Definition a_run (subs : list subdist) (d : Z) (st : aled) (ops : list lop) : aled := fold_left (a_step subs d) ops st.

  Theorem history_refines_ledger ops : forall w (st : Z -> aled),
    lwinv w -> Forall lop_ok ops -> (forall d, LRep d (st d) w) ->
    exists w', lrun w ops = Ok w' /\ lwinv w' /\ dw_subs w' = dw_subs w /\ forall d, LRep d (a_run (dw_subs w) d (st d) ops) w'.
  Proof.
    induction ops as [|o t IH]; intros w st Hw Hok Hrep; cbn [lrun a_run fold_left].
    - exists w. split; [reflexivity|]. split; [exact Hw|]. split; [reflexivity|exact Hrep].
    - inversion Hok as [|? ? Ho Hok']; subst. destruct o as [c|a c|pf]; cbn [lstep a_step].
      + destruct Ho as (H1 & H2 & H3). destruct (inflow_effect w None c st Hw H1 H2 H3 I Hrep) as [Hw1 Hr1]. cbv zeta in Hw1, Hr1.
        destruct (IH _ _ Hw1 Hok' Hr1) as (w' & E & A & B & C). exists w'. split; [exact E|]. split; [exact A|]. split; [exact B|]. exact C.
      + destruct Ho as (H0 & H0' & H1 & H2 & H3). destruct (inflow_effect w (Some a) c st Hw H1 H2 H3 (conj H0 H0') Hrep) as [Hw1 Hr1]. cbv zeta in Hw1, Hr1.
        destruct (IH _ _ Hw1 Hok' Hr1) as (w' & E & A & B & C). exists w'. split; [exact E|]. split; [exact A|]. split; [exact B|]. exact C.
      + destruct (block_refines_ledger w st pf Hw Hrep) as (w1 & evs & E1 & Hw1 & Hs1 & Hr1). rewrite E1.
        destruct (IH w1 (fun d => a_block (dw_subs w) (st d)) Hw1 Hok' Hr1) as (w' & E & A & B & C).
        exists w'. split; [exact E|]. split; [exact A|]. split; [rewrite B; exact Hs1|]. intros d. specialize (C d). rewrite Hs1 in C. exact C.
  Qed.

  (* the same history with other payouts failing *)
  Definition same_but_faults (o o' : lop) : Prop :=
    match o, o' with
    | LInflowMain c, LInflowMain c' => c = c'
    | LInflowAcct a c, LInflowAcct a' c' => a = a' /\ c = c'
    | LBlock _, LBlock _ => True
    | _, _ => False
    end.

  Lemma a_run_ignores_faults subs d ops ops' : Forall2 same_but_faults ops ops' -> forall st, a_run subs d st ops = a_run subs d st ops'.
  Proof.
    induction 1 as [|o o' t t' Ho _ IH]; intros st; [reflexivity|]. unfold a_run in *. cbn [fold_left].
    destruct o, o'; cbn [same_but_faults] in Ho; try contradiction; cbn [a_step].
    - subst. apply IH.
    - destruct Ho as [-> ->]. apply IH.
    - apply IH.
  Qed.

  (* C14: two runs of the same history that differ only in which payouts and burns fail credit every account, the burn and the
     unbooked remainder with exactly the same amounts after every prefix; in particular nothing is lost or counted twice *)
  Theorem failures_do_not_change_credited_amounts ops ops' w (st : Z -> aled) :
    lwinv w -> Forall lop_ok ops -> Forall lop_ok ops' -> Forall2 same_but_faults ops ops' -> (forall d, LRep d (st d) w) ->
    exists w1 w2, lrun w ops = Ok w1 /\ lrun w ops' = Ok w2 /\
      forall d, (forall a, Acct a -> ledA a (dw_states w1) (wbank w1) d = ledA a (dw_states w2) (wbank w2) d) /\
                ledB bk (dw_states w1) (wbank w1) d = ledB bk (dw_states w2) (wbank w2) d /\
                unbooked (dw_states w1) (wbank w1) d = unbooked (dw_states w2) (wbank w2) d.
  Proof.
    intros Hw Hok Hok' Hsame Hrep.
    destruct (history_refines_ledger ops w st Hw Hok Hrep) as (w1 & E1 & _ & _ & R1).
    destruct (history_refines_ledger ops' w st Hw Hok' Hrep) as (w2 & E2 & _ & _ & R2).
    exists w1, w2. split; [exact E1|]. split; [exact E2|]. intros d.
    destruct (R1 d) as (A1 & B1 & C1). destruct (R2 d) as (A2 & B2 & C2).
    rewrite (a_run_ignores_faults (dw_subs w) d ops ops' Hsame) in A1, B1, C1.
    split; [intros a Ha; rewrite <- (A1 a Ha), <- (A2 a Ha); reflexivity|]. split; [rewrite <- B1, <- B2; reflexivity|lia].
  Qed.

  (* "made up later": once an account's last payout went through in both runs (its recorded remains are below one unit),
     the two balances are equal — exactly, not only up to one unit *)
  Corollary settled_balances_agree a sts1 b1 sts2 b2 d :
    da_type a <> T_INTERNAL -> ledA a sts1 b1 d = ledA a sts2 b2 d ->
    0 <= remk (da_key a) d sts1 < P -> 0 <= remk (da_key a) d sts2 < P ->
    dc_amt d (bal_of (bk_bal b1) (da_addr a)) = dc_amt d (bal_of (bk_bal b2) (da_addr a)).
  Proof. unfold ledA. intros Hni. replace (da_type a =? T_INTERNAL) with false by lia. pose proof P_pos as HP. intros H0 H1 H2. nia. Qed.
End Accounts.

(* ------------------------------------------------------------------ the assumptions on the configuration's accounts, bundled *)
Record acct_universe (Acct : dacct -> Prop) (bk : Z) : Prop := {
  au_type : forall a, Acct a -> da_type a <> T_MAIN;
  au_addr : forall a, Acct a -> da_type a <> T_INTERNAL -> da_addr a <> MAINADDR;          (* no alias of the main account: not K2 *)
  au_id : forall a, Acct a -> da_id a <> 0;
  au_bk : forall a, Acct a -> da_key a <> bk;
  au_key_id : forall a a', Acct a -> Acct a' -> (da_key a = da_key a' <-> da_id a = da_id a');   (* no id shared by different accounts: not K4 *)
  au_key_same : forall a a', Acct a -> Acct a' -> da_key a = da_key a' -> da_type a = da_type a' /\ da_addr a = da_addr a';
  au_addr_key : forall a a', Acct a -> Acct a' -> da_type a <> T_INTERNAL -> da_type a' <> T_INTERNAL -> da_addr a = da_addr a' -> da_key a = da_key a' }.

Theorem ledger_refinement Acct bk (U : acct_universe Acct bk) ops w (st : Z -> aled) :
  lwinv Acct bk w -> Forall (lop_ok Acct) ops -> (forall d, LRep Acct bk d (st d) w) ->
  exists w', lrun w ops = Ok w' /\ lwinv Acct bk w' /\ dw_subs w' = dw_subs w /\ forall d, LRep Acct bk d (a_run (dw_subs w) d (st d) ops) w'.
Proof. destruct U. apply history_refines_ledger; assumption. Qed.

Theorem ledger_independent_of_failures Acct bk (U : acct_universe Acct bk) ops ops' w (st : Z -> aled) :
  lwinv Acct bk w -> Forall (lop_ok Acct) ops -> Forall (lop_ok Acct) ops' -> Forall2 same_but_faults ops ops' -> (forall d, LRep Acct bk d (st d) w) ->
  exists w1 w2, lrun w ops = Ok w1 /\ lrun w ops' = Ok w2 /\
    forall d, (forall a, Acct a -> ledA a (dw_states w1) (wbank w1) d = ledA a (dw_states w2) (wbank w2) d) /\
              ledB bk (dw_states w1) (wbank w1) d = ledB bk (dw_states w2) (wbank w2) d /\
              unbooked (dw_states w1) (wbank w1) d = unbooked (dw_states w2) (wbank w2) d.
Proof. destruct U. apply failures_do_not_change_credited_amounts; assumption. Qed.
