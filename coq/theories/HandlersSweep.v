(* HandlersSweep.v — correspondence for C20: decodes the class vectors of harness/sweep.go into raw
   messages, fixes the environment the sweep prepares (accounts X absent, B base with key, O pool owner,
   V continuous vesting, M blocked module account, PO owner of two matured pools of 5*10^18; vesting type "vt"; pool "pool"; the stored
   sub-distributor), and compares ValidateBasic / handler outcomes of the model with the observed ones.
   Definitions only. *)
From C4E Require Export Handlers.
Open Scope Z_scope.

(* denominations are numbered in their lexicographic order: uc4e = 1, uother = 2, zzz = 3 *)
Definition NOW : Z := 1700000000.
Definition BIG : Z := 1180591620717411303424.          (* 2^70 *)

Definition addr_c (c : Z) : addr := if c <? 2 then ABad c else AOk c.
Definition int_c (c : Z) : ival := if c =? 0 then INil else if c =? 1 then IV (-5) else if c =? 2 then IV 0 else if c =? 3 then IV 7 else IV BIG.
Definition dur_c (c : Z) : Z := if c =? 0 then 0 else if c =? 1 then -1000000000 else 3600000000000.
Definition coins_c (c : Z) : coinsv :=
  if c =? 0 then CNil else if c =? 1 then CL []
  else if c =? 2 then CL [(DOk 1, INil)] else if c =? 3 then CL [(DOk 1, IV (-3))]
  else if c =? 4 then CL [(DOk 1, IV 0)] else if c =? 5 then CL [(DOk 1, IV 5)]
  else if c =? 6 then CL [(DOk 3, IV 1); (DOk 1, IV 1)] else if c =? 7 then CL [(DOk 1, IV 1); (DOk 1, IV 2)]
  else if c =? 8 then CL [(DBad, IV 1)] else CL [(DOk 1, IV BIG)].
Definition denoms_c (c : Z) : list denom :=
  if c =? 0 then [] else if c =? 1 then [DEmpty] else if c =? 2 then [DOk 1; DOk 1] else if c =? 3 then [DBad]
  else if c =? 4 then [DOk 1] else if c =? 5 then [DOk 3] else [DBad].
Definition dec_c (c : Z) : dval :=
  if c =? 0 then DNil else if c =? 1 then DV (- (P / 10)) else if c =? 2 then DV 0 else if c =? 3 then DV (P / 2)
  else if c =? 4 then DV P else DV (3 * P).
Definition FIVE18 : Z := 5000000000000000000.
Definition GOV : Z := 9.
Definition auth_c (c : Z) : Z := if c =? 1 then GOV else 7.
Definition denom4_c (c other : Z) : denom := if c =? 0 then DEmpty else if c =? 1 then DOk other else DBad.

Definition CUR : Z := 1.
Definition ENDT : Z := NOW * 1000000000 + 1000 * 3600000000000.
Definition mk_m (seq : Z) (en : option Z) (c : cfg_raw) : option minter_raw := Some {| r_seq := seq; r_end := en; r_cfg := c |}.
Definition minters_c (c : Z) : list (option minter_raw) :=
  if c =? 0 then [] else if c =? 1 then [None]
  else if c =? 2 then [mk_m CUR None RNilCfg] else if c =? 3 then [mk_m CUR None RUnresolved]
  else if c =? 4 then [mk_m CUR (Some ENDT) (RLinear INil); mk_m (CUR + 1) None RNone]
  else if c =? 5 then [mk_m CUR None (RExp INil (DV P) 3600000000000)]
  else if c =? 6 then [mk_m CUR None (RExp (IV 5) DNil 3600000000000)]
  else if c =? 7 then [mk_m CUR None RNone] else [mk_m (CUR + 1) None RNone].

Definition acc_main : dacct := {| da_type := T_MAIN; da_id := 0; da_key := 1; da_addr := 0 |}.
Definition acc_green : dacct := {| da_type := T_MODULE; da_id := 11; da_key := 2; da_addr := 11 |}.
Definition acc_govb : dacct := {| da_type := T_MODULE; da_id := 12; da_key := 3; da_addr := 12 |}.
Definition share_s1 (d : dval) : option share_raw := Some {| rs_name := 2; rs_share := d; rs_dest := acc_govb |}.
Definition sd_c (c : Z) : sub_raw :=
  {| rr_name := if c =? 6 then 0 else 1;
     rr_pname := if c =? 6 then 101 else 100;
     rr_sources := if c =? 1 then [Some acc_main; None] else if c =? 5 then [] else [Some acc_main];
     rr_primary := acc_green;
     rr_burn := if c =? 3 then DNil else DV 0;
     rr_shares := if c =? 2 then [share_s1 (DV (P / 10)); None] else if c =? 4 then [share_s1 DNil] else [share_s1 (DV (P / 10))] |}.
Definition stored_sd : psub :=
  {| ps_sd := {| sd_name := 1; sd_sources := [acc_main]; sd_primary := acc_green; sd_burn := 0;
                 sd_shares := [{| sh_name := 2; sh_share := P / 10; sh_dest := acc_govb |}] |}; ps_pname := 100 |}.

Definition only_uc4e_le (limit : Z) (l : list (Z * Z)) : bool := forallb (fun c => (fst c =? 1) && (snd c <=? limit)) l.
Definition sweep_env : env :=
  {| e_gov := GOV;
     e_vest_denom := DOk 1;
     e_vtype := fun n => if n =? 1 then Some (P / 20) else None;
     e_pools := fun o => if o =? 4 then Some [{| pl_name := 1; pl_cur := 1000; pl_matured := false; pl_vt := 1 |}]
                         else if o =? 7 then Some [{| pl_name := 1; pl_cur := FIVE18; pl_matured := true; pl_vt := 1 |};
                                                   {| pl_name := 3; pl_cur := FIVE18; pl_matured := true; pl_vt := 1 |}]
                         else None;
     e_kind := fun a => if (a =? 3) || (a =? 4) || (a =? 7) then 1 else if a =? 5 then 2 else if a =? 6 then 3 else 0;
     e_haskey := fun a => a =? 3;
     e_blocked := fun a => a =? 6;
     e_balance := fun a => if (a =? 3) || (a =? 4) || (a =? 7) then 1000000 else if a =? 5 then 5000 else 0;
     e_spendable := fun a => if (a =? 3) || (a =? 4) || (a =? 7) then 1000000 else if a =? 5 then 4001 else 0;
     e_solvent := fun _ => true;
     e_can_send := fun a l => only_uc4e_le (if (a =? 3) || (a =? 4) || (a =? 7) then 1000000 else if a =? 5 then 4001 else 0) l;
     e_locked := fun a => if a =? 5 then [(1, 999)] else [];
     e_can_unlock := fun a l => only_uc4e_le (if a =? 5 then 999 else 0) l;
     e_send_enabled := true;
     e_module_balance := 1000 + 2 * FIVE18;
     e_minter_seq := CUR;
     e_minter_denom_ok := true;
     e_subs := [stored_sd];
     e_has_link := fun _ => false;
     e_any_pools := true |}.

Definition nthz (l : list Z) (i : nat) : Z := nth i l 0.
Definition decode_msg (h : Z) (v : list Z) : option msg :=
  let c := nthz v in
  if h =? 1 then Some (MCreatePool (addr_c (c 0%nat)) (c 1%nat) (int_c (c 2%nat)) (dur_c (c 3%nat)) (c 4%nat))
  else if h =? 2 then Some (MWithdraw (addr_c (c 0%nat)))
  else if h =? 3 then Some (MSendToVesting (addr_c (c 0%nat)) (addr_c (c 1%nat)) (c 2%nat) (int_c (c 3%nat)) (c 4%nat =? 1))
  else if h =? 4 then Some (MCreateVestingAccount (addr_c (c 0%nat)) (addr_c (c 1%nat)) (coins_c (c 2%nat)) NOW
                              (NOW + (if c 3%nat =? 0 then -5 else if c 3%nat =? 1 then 0 else 1000)))
  else if h =? 5 then Some (MSplit (addr_c (c 0%nat)) (addr_c (c 1%nat)) (coins_c (c 2%nat)))
  else if h =? 6 then Some (MMove (addr_c (c 0%nat)) (addr_c (c 1%nat)))
  else if h =? 7 then Some (MMoveByDenoms (addr_c (c 0%nat)) (addr_c (c 1%nat)) (denoms_c (c 2%nat)))
  else if h =? 8 then Some (MUpdateDenom (auth_c (c 0%nat)) (denom4_c (c 1%nat) 2))
  else if h =? 9 then Some (MMinterUpdateParams (auth_c (c 0%nat)) (denom4_c (c 1%nat) 1) (NOW * 1000000000) (minters_c (c 2%nat)))
  else if h =? 10 then Some (MMinterUpdateMinters (auth_c (c 0%nat)) (NOW * 1000000000) (minters_c (c 1%nat)))
  else if h =? 11 then Some (MDistrUpdateParams (auth_c (c 0%nat)) (if c 1%nat <? 7 then [sd_c (c 1%nat)] else []))
  else if h =? 12 then Some (MDistrUpdateSub (auth_c (c 0%nat)) (if c 1%nat <? 7 then Some (sd_c (c 1%nat)) else None))
  else if h =? 13 then Some (MDistrUpdateShare (auth_c (c 0%nat)) (c 1%nat) (if c 2%nat =? 0 then 0 else if c 2%nat =? 1 then 2 else 3) (dec_c (c 3%nat)))
  else if h =? 14 then Some (MDistrUpdateBurn (auth_c (c 0%nat)) (if c 1%nat =? 2 then 5 else c 1%nat) (dec_c (c 2%nat)))
  else if h =? 15 then Some (MSigCreateAccount (addr_c (c 0%nat)) (addr_c (c 1%nat)) (c 2%nat =? 2))
  else if h =? 16 then Some (MSigPublish (addr_c (c 0%nat)) (c 1%nat))
  else if h =? 17 then Some (MSigStore (addr_c (c 0%nat)) (c 1%nat) (2 <=? c 2%nat))
  else None.

Definition code {A} (r : outcome A) : Z := match r with Ok _ => 1 | Err => 0 | Panic => -1 end.

(* queries: 20..39; class 0 of the first position is the nil request *)
Definition query_model (h : Z) (v : list Z) : outcome unit :=
  if h =? 35 then q_account_info sweep_env (nthz v 0%nat =? 0) (addr_c (nthz v 1%nat))
  else q_generic (nthz v 0%nat =? 0).

(* handlers whose Ok may still turn into an error behind the modelled guards *)
Definition tolerant (h : Z) : bool := existsb (Z.eqb h) [].

Definition hcase := (Z * list Z * Z * Z)%type.
Definition check_hcase (c : hcase) : option (Z * list Z * list Z) :=
  let '(h, v, vb, hr) := c in
  if h <? 20 then
    match decode_msg h v with
    | None => Some (h, v, [-9])
    | Some m =>
        let vbm := code (validate_basic sweep_env m) in
        let hm := code (handle sweep_env m) in
        let h_ok := if hm =? 1 then (hr =? 1) || (tolerant h && (hr =? 0)) else hm =? hr in
        if (vbm =? vb) && h_ok then None else Some (h, v, [vbm; vb; hm; hr])
    end
  else
    let hm := code (query_model h v) in
    let h_ok := if hm =? 1 then 0 <=? hr else hm =? hr in
    if h_ok then None else Some (h, v, [2; vb; hm; hr]).

Fixpoint hmismatches (cs : list hcase) : list (Z * list Z * list Z) :=
  match cs with
  | [] => []
  | c :: t => match check_hcase c with Some x => x :: hmismatches t | None => hmismatches t end
  end.

(* ---- second stream: messages with randomly drawn values, printed by the harness as terms of type msg *)
Definition vcase := (msg * Z * Z)%type.
Definition check_vcase (i : Z) (c : vcase) : option (Z * list Z) :=
  let '(m, vb, hr) := c in
  let vbm := code (validate_basic sweep_env m) in
  let hm := code (handle sweep_env m) in
  if (vbm =? vb) && (hm =? hr) then None else Some (i, [vbm; vb; hm; hr]).
Fixpoint vmismatches_from (i : Z) (cs : list vcase) : list (Z * list Z) :=
  match cs with
  | [] => []
  | c :: t => match check_vcase i c with Some x => x :: vmismatches_from (i + 1) t | None => vmismatches_from (i + 1) t end
  end.
Definition vmismatches (cs : list vcase) : list (Z * list Z) := vmismatches_from 0 cs.
