(* Ledger.v — the distributor seen through what each account has been credited.
   For one denomination, in 10^-18 units:
     credited to an account  = its bank balance * 10^18 + the remains recorded in its state   (internal accounts: the remains),
     credited to the burn    = what was burned * 10^18 + the remains of the burn state,
     unbooked                = main balance * 10^18 - all recorded remains.
   [a_block] is the distributor's BeginBlock on these numbers alone: every sub-distributor takes what its sources have been
   credited, credits every named share and the burn with the truncated fraction and the primary destination with the rest.
   Bank transfers do not occur in it: a payout moves value between an account's balance and its remains, which the credited
   amount does not see.  LedgerProofs.v shows that the real BeginBlock (Distributor.v) refines this machine for every pattern of
   failing payouts and burns.  Definitions only. *)
From C4E Require Export Distributor.
Open Scope Z_scope.

Record aled := { aL : Z -> Z;      (* account key -> credited *)
                 aB : Z;           (* credited to the burn *)
                 aU : Z }.         (* unbooked part of the main balance *)

Definition a_set (k v : Z) (f : Z -> Z) : Z -> Z := fun x => if x =? k then v else f x.

(* PrepareCoinsToDistribute for one source: everything credited to it is taken *)
Definition a_take (src : dacct) (st : aled) : Z * aled :=
  if da_type src =? T_MAIN then (aU st, {| aL := aL st; aB := aB st; aU := 0 |})
  else (aL st (da_key src), {| aL := a_set (da_key src) 0 (aL st); aB := aB st; aU := aU st |}).

Fixpoint a_take_all (srcs : list dacct) (st : aled) (acc : Z) : Z * aled :=
  match srcs with
  | [] => (acc, st)
  | s :: t => let '(c, st') := a_take s st in a_take_all t st' (acc + c)
  end.

Definition a_credit (dest : dacct) (c : Z) (st : aled) : aled :=
  if da_type dest =? T_MAIN then {| aL := aL st; aB := aB st; aU := aU st + c |}
  else {| aL := a_set (da_key dest) (aL st (da_key dest) + c) (aL st); aB := aB st; aU := aU st |}.

(* named shares: the truncated fraction of the inflow each; a share whose destination is MAIN is not taken out (finding K3) *)
Fixpoint a_shares (shares : list dshare) (inflow : Z) (st : aled) (dflt : Z) : aled * Z :=
  match shares with
  | [] => (st, dflt)
  | sh :: t => if da_type (sh_dest sh) =? T_MAIN then a_shares t inflow st dflt
               else let c := dec_mul_trunc inflow (sh_share sh) in
                    a_shares t inflow (a_credit (sh_dest sh) c st) (dflt - c)
  end.

Definition a_sub (sd : subdist) (st : aled) : aled :=
  let '(inflow, st1) := a_take_all (sd_sources sd) st 0 in
  let '(st2, dflt1) := a_shares (sd_shares sd) inflow st1 inflow in
  let cb := dec_mul_trunc inflow (sd_burn sd) in
  let st3 := {| aL := aL st2; aB := aB st2 + cb; aU := aU st2 |} in
  a_credit (sd_primary sd) (dflt1 - cb) st3.

Definition a_block (subs : list subdist) (st : aled) : aled := fold_left (fun s sd => a_sub sd s) subs st.

(* coins arriving at an address between blocks *)
Definition a_inflow_acct (a : dacct) (amount : Z) (st : aled) : aled :=
  {| aL := a_set (da_key a) (aL st (da_key a) + amount * P) (aL st); aB := aB st; aU := aU st |}.
Definition a_inflow_main (amount : Z) (st : aled) : aled := {| aL := aL st; aB := aB st; aU := aU st + amount * P |}.

(* ------------------------------------------------------------------ the concrete side *)
(* remains recorded under a store key *)
Definition remk (k d : Z) (sts : list dstate) : Z :=
  zsum (map (fun s => if st_key s =? k then dc_amt d (st_rem s) else 0) sts).

Definition ledA (a : dacct) (sts : list dstate) (b : bank) (d : Z) : Z :=
  (if da_type a =? T_INTERNAL then 0 else dc_amt d (bal_of (bk_bal b) (da_addr a)) * P) + remk (da_key a) d sts.
Definition ledB (bk : Z) (sts : list dstate) (b : bank) (d : Z) : Z := dc_amt d (bk_burned b) * P + remk bk d sts.

(* BeginBlock with failures in the payout phase only: the sources are swept without bank failures, then every payout and burn
   may fail as the list says *)
Definition block_split (w : dworld) (payout_faults : list bool) : outcome (dworld * list (Z * list devent)) :=
  let b0 := {| bk_bal := dw_bal w; bk_burned := dw_burned w; bk_faults := []; bk_calls := 0 |} in
  match run_subs (dw_subs w) (dw_states w) b0 (dw_burnkey w) [] with
  | Panic => Panic | Err => Err
  | Ok (sts, b1, evs) =>
      match payout_all sts {| bk_bal := bk_bal b1; bk_burned := bk_burned b1; bk_faults := payout_faults; bk_calls := bk_calls b1 |} with
      | Panic => Panic | Err => Err
      | Ok (sts', b2) =>
          Ok ({| dw_subs := dw_subs w; dw_states := store_all sts' (dw_states w); dw_bal := bk_bal b2;
                 dw_burned := bk_burned b2; dw_burnkey := dw_burnkey w |}, evs)
      end
  end.
