"""Per-property configuration of bin/check: which harness runs feed the property, which
implementation-side predicates belong to it, and what is assumed."""

TRUSTED_BASE = [
    "Coq 8.16.1 kernel and its vm_compute reduction machine (no native_compute); coqchk in the thorough tier",
    "no axioms declared; stdlib only (ZArith, List, Bool, Lia/Nia, ZifyBool)",
    "hand-written Gallina model under coq/theories (modelled, not verified: cosmos-sdk x/bank, x/auth vesting accounts, "
    "x/staking delegation tracking, baseapp cache-wrapped message execution, IAVL key order, protobuf)",
    "correspondence check: Go harness (harness/*.go) built against /repo's working tree; generator, interning of "
    "strings to integer ranks, observation printers, predicate evaluation; python orchestrator bin/check",
    "model evaluated inside Coq by vm_compute on harness-written case files (no extraction)",
]

ASSUMPTIONS = [
    "the theorems are about the hand-written model; the model is tied to the code only on the cases the harness explores",
    "messages are executed the way baseapp does (cache-wrapped context, written only on success)",
]

VEST_RULE = ("histories of cfevesting messages (create pool, withdraw, send, create vesting account, split, move, move-by-denoms), "
             "delegations and time steps generated from (VERIF_SEED, index), executed through the real message server on a "
             "cache-wrapped context of the real app; after every operation the full projection (balances, locked coins, auth "
             "account fields, pools incl. query withdrawable, lineage traces of all tracked addresses) is compared with the Coq "
             "model; non-trivial = at least one message succeeded; distinct = distinct operation lists")

def vest(profile, nq, nt):
    return {"kind": "vest", "profile": profile, "n_quick": nq, "n_thorough": nt, "per_shard": 10}

PROPS = {
    "C06": {
        "model": "Vest.v: withdraw_all, withdrawable, step",
        "runs": [vest("pools", 160, 4000)],
        "preds": ["C06."],
        "rule": VEST_RULE,
    },
}
