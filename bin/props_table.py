"""Per-property configuration of bin/check: which harness runs feed the property, which
implementation-side predicates belong to it, and what is assumed."""

TRUSTED_BASE = [
    "Coq 8.16.1 kernel and its vm_compute reduction machine (no native_compute); coqchk in the thorough tier",
    "no axioms declared; stdlib only (ZArith, List, Bool, Lia/Nia, ZifyBool)",
    "hand-written Gallina model under coq/theories (modelled, not verified: cosmos-sdk x/bank, x/auth vesting accounts, "
    "x/staking delegation tracking, baseapp cache-wrapped message execution, IAVL key order, protobuf)",
    "correspondence check: Go harness (harness/*.go) built against /repo's working tree; generator, interning of "
    "strings to integer ranks, observation printers, predicate evaluation; python orchestrator bin/check",
    "model evaluated inside Coq by vm_compute on harness-written case files (no extraction)",
]

ASSUMPTIONS = [
    "the theorems are about the hand-written model; the model is tied to the code only on the cases the harness explores",
    "messages are executed the way baseapp does (cache-wrapped context, written only on success)",
]

VEST_RULE = ("histories of cfevesting messages (create pool, withdraw, send, create vesting account, split, move, move-by-denoms), "
             "delegations and time steps generated from (VERIF_SEED, index), executed through the real message server on a "
             "cache-wrapped context of the real app; after every operation the full projection (balances, locked coins, auth "
             "account fields, pools incl. query withdrawable, lineage traces of all tracked addresses) is compared with the Coq "
             "model; non-trivial = at least one message succeeded; distinct = distinct operation lists")

def vest(profile, nq, nt):
    return {"kind": "vest", "profile": profile, "n_quick": nq, "n_thorough": nt, "per_shard": 10}

MINTER_RULE = ("validated emission configurations (1-5 periods of no-minting / linear / exponential-step type, amounts up to 10^30, "
               "ns-precise and aligned start/end times, 0-18 digit multipliers) generated from (VERIF_SEED, index); each is run through the real "
               "cfeminter.BeginBlocker under 2-3 different partitions of the same time span (regular, on/around period and step boundaries, random, "
               "single jump); after every block the minted amount, minter state, state history, supply and the Inflation query are compared with "
               "the Coq model; a separate malformed stream compares only the validation decision; non-trivial = something was minted; "
               "distinct = distinct (configuration, final time)")

VGENESIS_RULE = ("vesting genesis states generated from (VERIF_SEED, index): 1-3 vesting types, 0-4 owners with 0-3 pools (sent / withdrawn histories, "
                 "emptied pools), 0-3 lineage traces; 40% perturbed in one of 16 ways Validate looks at (duplicate / nameless / malformed vesting type, unknown unit, "
                 "negative period, pool amounts out of bounds, nameless / duplicate pool, unknown vesting type, duplicate / malformed owner, duplicate / too large trace id, "
                 "malformed trace address, malformed denomination); the vesting module account's balance is set to exactly, more than or less than what the pools lock, "
                 "incl. no owner entries with a funded module account; the real GenesisState.Validate and cfevesting.InitGenesis run on an emptied store, and the "
                 "store read back through the keeper is compared with the Coq model; accepted valid genesis: the registered invariants, export, re-import, re-export")

def vgenesis(nq, nt):
    return {"kind": "vgenesis", "profile": "", "n_quick": nq, "n_thorough": nt, "per_shard": 150}

def minter(nq, nt):
    return {"kind": "minter", "profile": "", "n_quick": nq, "n_thorough": nt, "per_shard": 10}

DISTR_RULE = ("sub-distributor graphs (1-5 sub-distributors; MAIN, module, base and internal sources and destinations; pass-through chains; "
              "shares with 0-18 digits; burn shares; 1-3 denominations; amounts up to 10^27) generated from (VERIF_SEED, index) and accepted by the real "
              "Params.Validate; inflows into main and source accounts; 2-11 blocks; the real cfedistributor.BeginBlocker runs through a keeper whose "
              "BankKeeper records every call's outcome (and, in fault mode, injects failures per a generated bit pattern); after every block states, "
              "balances, burned amounts and typed events are compared with the Coq model given the same outcome bits; ~14% of the cases are drawn "
              "from the known-finding shapes K1-K4; profile updates: a governance update (Keeper.SetParams) replaces the configuration between two blocks of "
              "the history — the same graph with an internal account's id re-typed to a module or base account, a freshly generated graph, or other share "
              "and burn fractions — and the model takes the same update (DSetSubs); non-trivial = at least one block ran; distinct = distinct "
              "(configuration, operation list)")

def distr(profile, nq, nt):
    return {"kind": "distr", "profile": profile, "n_quick": nq, "n_thorough": nt, "per_shard": 20}

APP_RULE = ("whole-application histories through real ABCI (InitChain with a generated genesis for the four custom modules, BeginBlock, DeliverTx with "
            "signed transactions, EndBlock, Commit): a generated emission schedule (1-5 periods), a generated validated sub-distributor graph, two vesting "
            "types, four funded accounts; 4-17 blocks with random block times (seconds to days apart, crossing period ends), 0-3 transactions per block "
            "(create pool, withdraw, send to vesting account, create vesting account, bank send, signature link publication), random fees; in 70% of the "
            "cases the state is exported at a random height, validated, imported into a fresh application and re-exported, and both applications run "
            "the same remaining blocks; the minter's per-block observations are compared with the Coq model; non-trivial = something was minted; "
            "distinct = distinct (schedule, final time)")

def app(nq, nt, **kw):
    d = {"kind": "app", "profile": "", "n_quick": nq, "n_thorough": nt, "per_shard": 10}
    d.update(kw)
    return d

SWEEP_RULE = ("exhaustive product of boundary classes per field (addresses: empty, malformed, valid-absent, base account with key, pool owner "
              "without key, continuous vesting account, blocked module account; big integers: nil, negative, zero, small, above MaxInt64; decimals: nil, "
              "negative, 0, 1/2, 1, above 1; coin lists: nil, empty, nil amount, negative, zero, valid, unsorted, duplicate, invalid denomination, huge; "
              "denomination lists; names empty/existing/unknown; durations; times; authority; minter lists with nil entry / nil config / unresolved Any / "
              "nil amounts; sub-distributors with nil source, nil share, nil burn share, nil share value, no sources, empty name, nil pointer; nil requests) "
              "for all 17 message types (ValidateBasic and handler, each under recover, each on a fresh cache context of the real app with the "
              "referenced objects present for some classes and absent for others) and all 20 queries; the observed outcome (accept / error / panic) of "
              "every call is compared with the Coq front-door model's outcome for the same values; non-trivial = the call list is non-empty; distinct = "
              "distinct (handler, class vector)")

def sweep():
    return {"kind": "sweep", "profile": "", "n_quick": 1, "n_thorough": 1, "per_shard": 1}

def sweep_values(nq, nt):
    return {"kind": "sweep", "profile": "values", "n_quick": nq, "n_thorough": nt, "per_shard": 500}

REPLICAS = [{"TZ": "UTC", "GOMAXPROCS": "1"},
            {"TZ": "Europe/Warsaw", "GOMAXPROCS": "8", "VERIF_QUERIES": "1", "VERIF_CRISIS_SKIP": "1", "VERIF_RESTART": "1"},
            {"TZ": "America/St_Johns", "GOMAXPROCS": "3", "VERIF_INV_CHECK_PERIOD": "1", "VERIF_TELEMETRY": "1"}]

PROPS = {
    "C01": {
        "title": "Supply changes only by scheduled mint minus configured burn",
        "model": "Minter.v begin_block; Distributor.v bank (transfer, burn), dist_begin_block; Vest.v step (bank part)",
        "runs": [app(100, 5000), distr("", 120, 5000), vest("", 40, 2000), minter(60, 3000)],
        "preds": ["C01.", "C03.conservation", "C03.state_sum_equals_balance"],   # books above the balance = coins booked (and burned from) that were never collected
        "rule": APP_RULE + " | module-mode distributor and vesting generators as for C03 / C05",
        "level_text": "Coq theorems: the minter's block adds exactly the minted amount (the growth of the schedule counters) to the supply; one whole "
                      "distributor BeginBlock conserves, per denomination, the sum of all balances plus everything burned (induction over sources, "
                      "sub-distributors and payouts), burning being the only sink; every vesting-world operation, accepted or rejected, over histories "
                      "of any length conserves every denomination's total and only moves coins between two accounts. On the real application: after "
                      "every BeginBlock supply delta = Mint event - bank burn events and supply = sum of all balances (full bank iteration); every "
                      "delivered message keeps the supply and the tracked accounts' total.",
    },
    "C10": {
        "title": "Emission and distribution can never halt the chain",
        "model": "Minter.v mint_rec / begin_block; MinterWalk.v run_blocks; Distributor.v start_distribution, payout_all, dist_begin_block; Genesis.v import",
        "runs": [app(120, 5000), minter(100, 4000), distr("", 200, 8000), distr("faults", 80, 3000), distr("updates", 60, 2500),
                 {"kind": "params", "profile": "", "n_quick": 200, "n_thorough": 8000, "per_shard": 20}],
        "preds": ["C10."],
        "rule": APP_RULE + " | " + MINTER_RULE + " | " + DISTR_RULE + "; every BeginBlock / EndBlock runs under recover(); the application-mode histories include genesis export/import with further blocks on the restored application",
        "partial": ["parameter-update sequences are exercised at message-server level (C13's generator, followed by three blocks of both begin-blockers under recover()), not through ABCI; Int / Dec overflow panics of the SDK (amounts beyond 2^256) are outside the model and excluded by the property's magnitude bound"],
        "level_text": "Coq theorems: for every validated schedule every strictly increasing sequence of block times is processed without error or "
                      "panic from the genesis state and from every state BeginBlock produces (induction over periods and blocks); Mint errs only if "
                      "a period of the hand-over chain is missing, which UpdateParams refuses to create; one StartDistributionProcess with validated "
                      "shares and states that all carry an account never panics (no DecCoins.Sub goes negative: invariant on the running remainder), "
                      "nor do the payouts under any transfer failures; genesis import restores burn-state accounts (F4). K1 refuted by a computed "
                      "two-block witness. The real BeginBlock/EndBlock run under recover() in application and module mode incl. after export/import.",
    },
    "C11": {
        "title": "Replicas computing the same blocks reach the same state hash",
        "model": "Validate.v (map-order independence of the validation decision); all model transitions are Gallina functions",
        "runs": [app(40, 1500, replicas=REPLICAS),
                 {"kind": "upgrade", "profile": "tz", "n_quick": 200, "n_thorough": 6000, "per_shard": 20, "env": {"TZ": "Europe/Warsaw"}},
                 {"kind": "upgrade", "profile": "tz", "n_quick": 100, "n_thorough": 3000, "per_shard": 20, "env": {"TZ": "America/St_Johns"}},
                 {"kind": "sweep", "profile": "clock", "n_quick": 1, "n_thorough": 1, "per_shard": 1000},
                 {"kind": "upgrade", "profile": "handler", "n_quick": 30, "n_thorough": 600, "per_shard": 20, "env": {"TZ": "UTC"}}],
        "preds": ["C11."],
        "rule": APP_RULE + "; C11: every history is executed in three separate OS processes with different TZ, GOMAXPROCS and node-local x/crisis settings; one of them is stopped and started again over its database before two blocks of every history (one skips the "
                "genesis assertion of the invariants, one checks the invariants after every block); app hash after every Commit, "
                "DeliverTx (code, codespace, data, events) and BeginBlock/EndBlock events are compared line by line; the v1.2.0 upgrade functions run on "
                "generated pre-upgrade stores in processes with TZ=Europe/Warsaw and TZ=America/St_Johns, and the account records they write are compared with "
                "what a node in UTC writes (and with the Coq model of the upgrade); profile clock: MsgCreateVestingAccount with start / end times at round distances "
                "(minutes ... calendar years, ahead and back) from the process's wall clock plus a margin, executed on the same state before and after the wall clock "
                "passes the margin: the outcomes must be equal (and equal to the front-door model's)",
        "partial": ["Go-runtime nondeterminism (map iteration order, wall clock, local time zone, goroutine scheduling) lives outside any Gallina model: it is "
                    "only exhibited by the multi-process differential runs; nondeterminism that needs another binary, architecture or Go version is not exhibited"],
        "technique": "machine-checked proof in Coq (order-independence of the map-driven validation decision; functional models) + multi-process differential execution of the real application",
        "level_text": "Coq theorems: the validation decision that iterates a Go map is the same for every iteration order (the reported id is not: F8 "
                      "witness); all model transitions are functions of (state, input). The real application runs every generated history in three OS "
                      "processes (different TZ, GOMAXPROCS) and app hashes, transaction results and events are compared after every block.",
    },
    "C12": {
        "title": "Genesis export/import preserves state and subsequent behaviour",
        "model": "Genesis.v: minter / distributor / vesting-type / signature export and import",
        "runs": [app(160, 5000), vgenesis(300, 10000), vest("pools", 60, 2000)],
        "preds": ["C12.", "C10.block_processing_no_panic_after_import"],
        "rule": APP_RULE + " | " + VGENESIS_RULE + " | " + VEST_RULE + " (C12: the vesting genesis exported after every history must pass its own validation)",
        "partial": ["the lineage traces and vesting types of the vesting genesis and the SDK modules' own export/import are covered by the "
                    "comparisons on the implementation only (module-level export / re-import / re-export equality, application-level re-export equality "
                    "and identical behaviour of the restored application), not by a Coq theorem; the pool store is"],
        "level_text": "Coq theorems: importing the exported minter genesis yields exactly the same parameters, state and history (history shape is an "
                      "invariant of BeginBlock), hence identical later blocks; the same for the distributor after fix F4 (old import: computed panic "
                      "witness); vesting-type periods survive the (unit, value) encoding exactly for whole seconds and imported periods are always whole "
                      "seconds; K6 refuted by witness. On the real application: export at a random height, ModuleBasics.ValidateGenesis, InitChain of a "
                      "fresh app, re-export equality per custom module, and identical balances / states / transaction results over the remaining blocks.",
    },
    "C03": {
        "title": "Distributor books always match the coins it holds",
        "model": "Distributor.v: prepare_source, start_distribution, payout_all, dist_begin_block",
        "runs": [distr("", 320, 12000), distr("updates", 80, 3000), app(60, 3000)],
        "preds": ["C03."],
        "rule": DISTR_RULE,
        "partial": ["the hypotheses of the history theorem that are not consequences of validation are the two known-finding classes (sources in order = not K1, "
                    "no alias of the main account = not K2) and the store-key discipline (keys determine ids, computed by the harness from the real key strings); "
                    "external inflows are modelled as non-negative coins arriving between blocks; that no transaction can credit the main account in the middle of a block "
                    "(the application's blocked-address list) is checked on the implementation only (app runs: the module's invariants on the committed state after every block)"],
        "level_text": "Coq theorems over the executable distributor model. History level (C03_books_equal_balance_after_every_block, Books.history_keeps_books): "
                      "for every world satisfying the invariant (well-formed non-negative remains and balances, states stored in key order under their account's key, "
                      "share fractions adding up to at most 1, MAIN first among the sources of its sub-distributor, no alias of the main account, books not above the "
                      "main balance), every sequence of inflows and blocks with ANY pattern of failing bank calls: no block panics and after every block the sum of "
                      "all recorded remains equals the main account's balance per denomination. The configuration hypotheses follow from Params.Validate "
                      "(C03_validated_configuration_books_everything: shares in range; 'last occurrence of MAIN is a source' makes everything booked). "
                      "Mechanism level: MAIN inflow = balance - books; internal re-queue; one StartDistributionProcess books exactly its events; a payout removes "
                      "the integer part from books and main balance together. K1 refuted by a computed witness. Model compared with the real BeginBlocker after "
                      "every block; the module's registered invariants are evaluated on the implementation.",
    },
    "C04": {
        "title": "Every destination receives exactly its configured share",
        "model": "Distributor.v: calc_share, distribute_shares, start_distribution, add_share_to_account (findAccountState semantics)",
        "runs": [distr("", 320, 12000), distr("updates", 80, 3000)],
        "preds": ["C04."],
        "rule": DISTR_RULE + "; C04 compares every destination's credited amount (balance gained + recorded remains) with an independent exact-rational oracle of the configured shares",
        "partial": ["the whole-history theorems (refinement of the credited-amounts machine Ledger.a_block; independence from the order of the non-MAIN "
                    "sources, LedgerOrder.v) hold under the hypotheses not-K1, not-K2, not-K4 and no failing sweep; outside them (the known-finding classes, "
                    "failing sweeps) the per-step laws and the exact-rational oracle of every run apply"],
        "level_text": "Coq theorems: a named share is floor(inflow*share) in 18-digit fixed point between 0 and the inflow; per step every share event, "
                      "the burn and the primary remainder are exactly as configured and the books grow by exactly those amounts (fractions kept); "
                      "crediting one destination touches no other. K3 and K4 refuted by computed witnesses. The implementation's per-destination "
                      "credit is compared after every block with the model and with an exact-rational oracle.",
    },
    "C13": {
        "title": "Only governance changes parameters, and stored parameters stay valid",
        "model": "Params.v: dparams_valid (SubDistributor.Validate + ValidateSubDistributors), set_params, the seven update handlers",
        "runs": [{"kind": "params", "profile": "", "n_quick": 300, "n_thorough": 10000, "per_shard": 20}],
        "preds": ["C13."],
        "rule": "sequences of 2-11 parameter update messages (whole distributor set, one sub-distributor, one destination share, one burn share, minter "
                "parameters with and without denomination, vesting denomination) through the real message servers; payloads valid, invalid (share sums "
                "reaching 1, burn pushing the total over 1, reserved share name, dangling internal account, no sources, malformed address, id gaps, dropped "
                "current period, empty denomination), or valid only in isolation; authority = gov module address (75%) or another / empty / malformed "
                "string; pools present in 40% of the cases; after every message the accept/reject decision and the stored parameters of all three "
                "modules are compared with the Coq model (which transcribes the validation rules) and the stored values are re-validated with the "
                "modules' own Validate(); non-trivial = at least one update accepted; distinct = distinct message lists",
        "level_text": "Coq theorems over a model that transcribes the distributor's validation and all seven handlers: a message whose authority is not "
                      "governance changes nothing; for every sequence of updates the stored parameters satisfy the validation rules, the minter's current "
                      "period exists and the vesting denomination is valid (induction over the sequence; each handler validates the complete candidate "
                      "before writing); a rejected update returns the identical world; the vesting denomination cannot change while pools exist. The "
                      "real message servers run the same sequences; decisions and stored parameters are compared after every message.",
    },
    "C14": {
        "title": "Failed transfers in the distributor lose nothing and are made up later",
        "model": "Distributor.v: bank with fault oracle (transfer, burn, failed_debit), prepare_source, payout; Ledger.v: the credited-amounts machine a_block, block_split",
        "runs": [distr("faults", 220, 8000), distr("", 120, 4000), distr("updates", 120, 4000)],
        "preds": ["C14.", "C03."],
        "rule": DISTR_RULE + "; C14: fault mode injects failures on ~30% of the bank calls for 2-11 blocks, then runs fault-free blocks and compares final balances with a fault-free twin run (acyclic graphs)",
        "partial": ["the 'made up later' theorem (C14_failures_never_change_what_an_account_is_credited) covers failing payouts and burns; failing sweeps of "
                    "the sources are outside its hypotheses (they postpone the collection, which legitimately changes later blocks: finding K11, vesting-locked "
                    "sources) and are covered by the books theorem and by the fault-free twin comparison on every run"],
        "level_text": "Coq theorems over the fault-oracle bank: (history level, C14_books_hold_whatever_fails) for every pattern of failing sweeps, payouts and burns over histories of any length the recorded remains add up to exactly the main balance after every block - nothing that failed to leave is forgotten; a failed payout or burn leaves the state's remains intact; a failed call that is not an "
                      "insufficient-funds failure leaves the bank unchanged; a failed sweep contributes no inflow and keeps books+inflow constant; "
                      "a later successful payout pays exactly the accumulated integer part. Refinement (LedgerProofs.v): the real BeginBlock refines the "
                      "credited-amounts machine of Ledger.v for every pattern of failing payouts and burns, so two runs of one history that differ only in "
                      "those failures credit every account, the burn and the unbooked remainder identically after every prefix, and settled balances are "
                      "equal exactly. The real keeper runs over a fault-injecting BankKeeper; "
                      "the registered invariants are evaluated after every block and final balances compared with a fault-free twin. Failing sweeps, one sub-distributor: collecting x + y at once instead of x and y separately changes every named share by at most one 10^-18 unit and loses nothing (Postponed.v).",
    },
    "C18": {
        "title": "Emitted events report the amounts that actually moved",
        "model": "Minter.v begin_block; Distributor.v start_distribution events; Vest.v withdraw_events",
        "runs": [distr("", 200, 8000), distr("faults", 80, 3000), minter(80, 3000), vest("pools", 100, 3000)],
        "preds": ["C18."],
        "rule": "three generators: " + DISTR_RULE + " | " + MINTER_RULE + " | " + VEST_RULE,
        "level_text": "Coq theorems: the mint event's amount is the supply growth of the block; a sub-distributor's Distribution and Burn events add up "
                      "to its inflow (non-MAIN primary; K5 refuted by witness) and equal the growth of the books; withdrawal events are exactly one "
                      "per paying pool with that pool's amount and sum to the coins paid. Typed events of the real BeginBlock / message results are "
                      "decoded and compared with the model and with balance deltas / an exact oracle.",
    },
    "C02": {
        "title": "Emission follows the configured schedule, independent of block cadence",
        "model": "Minter.v: amount_to_mint, mint_rec (hand-over recursion), mint, begin_block, params_valid; MinterFaults.v: node_block, run_node (blocks stopped by a refusing bank are not committed)",
        "runs": [minter(150, 6000)],
        "preds": ["C02."],
        "rule": MINTER_RULE,
        "level_text": "Coq theorems over the executable minter model. Whole histories (C02_cumulative_mint_is_floor_of_schedule, MinterWalk.partition_independence): for every "
                      "validated configuration (linear periods of at least a millisecond), every genesis state with zero counters and every strictly increasing "
                      "sequence of block times, no BeginBlock fails and the total minted equals floor(exact cumulative schedule at the last block time) - hence "
                      "equal for any two partitions of the same span (C02_partition_independent). Per block, for every parameter set, state and time: a block's amount is never negative "
                      "and equals the growth of (finished periods' totals + current counter); inside a period the counter after a block is "
                      "floor(schedule(now)+carry) whatever happened before (partition independence); hand-over writes the full counter to history and "
                      "passes exactly the fractional remainder; carries telescope to floor of the exact sum; linear periods hit exactly their amount "
                      "at the end and are monotone; exponential epoch sums are monotone. Model compared with the real BeginBlocker on 2-3 partitions "
                      "per configuration on every run; cumulative vs an independent schedule oracle. Refusing bank (C02_refused_bank_calls_lose_nothing_and_emit_nothing_twice): "
                      "over every pattern of blocks stopped by a refused bank call that lets the last block through, the committed history mints the same total; on the "
                      "implementation the minter keeper runs on a bank that refuses MintCoins or the transfer to the collector in chosen blocks, only blocks that return are committed.",
    },
    "C19": {
        "title": "Reported inflation equals the actual annualised emission rate",
        "model": "Minter.v: calc_inflation, current_inflation",
        "runs": [minter(260, 8000)],
        "preds": ["C19."],
        "rule": MINTER_RULE + "; C19 additionally compares the inflation reported after a block with what the next block inside the same period/step minted",
        "partial": ["the numeric theorems compare the schedule's emission in 10^-18 units with rate*supply*interval/year; the integer amount a block actually "
                    "mints differs from it by the truncation and carry proved in C02; linear periods are taken between millisecond-aligned instants of a "
                    "millisecond-aligned period, as the property states"],
        "level_text": "Coq theorems (C19_linear_emission_matches_rate, C19_exponential_emission_matches_rate): for every amount, supply and instants inside one linear "
                      "period / one step of an exponential period, emission(t1,t2] and rate*supply*(t2-t1)/year differ by less than one 10^-18 unit plus "
                      "(supply+1)*(t2-t1)/year units (the 18-digit resolution of the rate times the supply). Further: the reported rate is zero before the start, for no-minting and for an ended exponential period; for a linear period "
                      "it is floor(floor(amount*year/period)/supply) with the bracketing inequality that ties rate*supply*period to amount*year; for "
                      "an exponential-step period it is the current step's epoch amount (same recurrence as AmountToMint) annualised over supply. "
                      "The Inflation query is compared with the model after every block and with the next block's actual mint.",
    },
    "C20": {
        "title": "No message or query of the custom modules panics on any input",
        "model": "Handlers.v: validate_basic, handle (front door of all 17 messages), q_generic, q_account_info; HandlersSweep.v: decoding of the class vectors",
        "runs": [sweep(), sweep_values(4000, 120000), minter(60, 2500), {"kind": "sig", "profile": "", "n_quick": 120, "n_thorough": 4000, "per_shard": 15}],
        "preds": ["C20."],
        "rule": "signature registry histories (C20: the VerifySignature query over stored records with tampered signatures, foreign and malformed certificates, bundles, unknown algorithm names) | " + MINTER_RULE + " (C20: the Inflation query after every block, incl. mint denominations whose supply is still zero and histories with a governance update) | " + SWEEP_RULE + "; second stream: messages of the seven cfevesting handlers with randomly drawn values (integers: nil, negative, zero, small, around the "
                "balances / pool amounts / locked coins of the prepared state, around 2^63 and 2^64, up to 60 digits; coin lists of 0-3 entries mixing valid, zero, "
                "negative, nil amounts and valid / unknown / malformed / empty denominations; denomination lists; durations; times), printed as terms of the model's "
                "message type; distinct = distinct messages",
        "partial": ["the handlers are modelled up to and including every operation on a raw field value or on looked-up state that can panic "
                    "(nil Int/Dec arithmetic, NewCoin / AmountOf, nil dereference, empty store key, SendCoins from an insolvent account); the "
                    "well-formed cores behind them are the models of C05-C09 / C13 (Vest.v, Params.v, Minter.v), connected by the lowering theorems",
                    "debug log arguments (evaluated lazily by the logger) and telemetry labels are not modelled",
                    "the hypothesis on the state (valid stored denomination, non-negative pool amounts, 0 <= free <= 1, balance >= locked) is what "
                    "genesis/parameter validation and C05/C06 establish; it is checked on the sweep's state (Example C20_sweep_env_satisfies_hypotheses)",
                    "known finding K7 (MsgCreateAccount) is excluded from the universal theorem and characterised exactly instead"],
        "level_text": "Coq theorems over the front-door model, for all raw values of unbounded size: ValidateBasic of every message never panics; every "
                      "handler except MsgCreateAccount never panics in any state satisfying the state hypotheses, hence no accepted message crashes its "
                      "handler; MsgCreateAccount panics exactly for the well-formed requests (K7, refutation theorem with witness); queries never panic; "
                      "accepted raw distributor/minter parameters are nil-free and the raw validation equals the well-formed decision of Params.v / "
                      "Minter.v. Every (handler, class vector) of the exhaustive sweep is executed on the real keepers and its outcome must equal the model's.",
    },
    "C05": {
        "title": "Vesting module account is always exactly backed by its pools",
        "model": "Vest.v: create_pool, withdraw_all, send_to_vesting_account, create_vesting_account, split/move, step, run; VestGenesis.v: vgenesis_valid, vgenesis_init",
        "runs": [vest("pools", 120, 4000), vest("", 60, 2000), vgenesis(300, 10000),
                 {"kind": "upgrade", "profile": "", "n_quick": 200, "n_thorough": 6000, "per_shard": 20, "env": {"TZ": "UTC"}}],
        "preds": ["C05.", "C16.solvency_", "C16.total_locked_preserved"],   # pool solvency (C05) must hold after the v1.2.0 upgrade
        "rule": VEST_RULE + " | " + VGENESIS_RULE,
        "level_text": "Coq theorems over the executable vesting-world model: Solvent (module balance = sum over pools of locked-sent-withdrawn, "
                      "every pool within bounds) is an invariant of every history of vesting messages by any signers with any arguments and "
                      "arbitrary time steps (induction over the operation list); a rejected message returns the identical world. The model is "
                      "compared with the real message server after every operation of generated histories, and the three registered invariants "
                      "are evaluated through the real functions. Genesis: InitGenesis refuses every module balance different from what the listed "
                      "pools lock (also with no pools listed), and a validated, accepted genesis stores pools that back the module account exactly; "
                      "the real Validate / InitGenesis run on generated genesis states with equal, larger and smaller module balances.",
    },
    "C06": {
        "title": "Pool time-lock",
        "model": "Vest.v: withdraw_all, withdrawable, send_to_vesting_account, step",
        "runs": [vest("pools", 160, 4000)],
        "preds": ["C06."],
        "rule": VEST_RULE,
        "level_text": "Coq theorems over the executable pool model (all pools, times, operation kinds): nothing withdrawable before lock end, "
                      "withdraw-all pays exactly the matured remainders, repeated withdrawal pays zero, query = paid, a locked pool's ledger "
                      "changes only through a send into a brand-new continuous vesting account; a send starts with the same withdrawal as a withdraw-all "
                      "(after it every matured pool is empty and a repeated withdrawal pays zero: SendWithdraw.v); the model is compared with the real message "
                      "server on generated histories on every run.",
    },
    "C07": {
        "title": "Split/move of vesting is exact and preserves the release schedule",
        "model": "Vest.v: unlock_ov, unlock_all, split_vesting_coins, move_available, move_by_denoms, vesting_amt/locked_amt (SDK vesting math)",
        "runs": [vest("split", 220, 6000)],
        "preds": ["C07."],
        "rule": VEST_RULE + "; for C07 non-trivial additionally needs a successful split/move",
        "partial": ["the later-time theorem is about the vesting coins of one denomination (what the SDK's GetVestingCoins returns); locked coins additionally subtract "
                    "the delegated-vesting amount, whose bookkeeping by x/staking is modelled, not verified; sampled later times are also checked on the implementation "
                    "(C07.later_time_agreement)"],
        "level_text": "Coq theorems for every original vesting, schedule, block time and requested amount (unbounded integers, any tie-breaking): "
                      "the new original vesting computed by UnlockUnbondedContinuousVestingAccountCoins leaves exactly the requested amount fewer "
                      "coins vesting; at account level the sender's locked coins drop by exactly the amount per denomination, spendable is "
                      "unchanged, the recipient is new with locked = amount, same end, start = max(now,start); move leaves zero locked; every "
                      "amount up to locked can be split. Later-time agreement is proved at the endpoints and sampled in between (partial).",
    },
    "C08": {
        "title": "New vesting accounts get exactly the documented amount and schedule",
        "model": "Vest.v: send_to_vesting_account, new_vesting_account, create_vesting_account",
        "runs": [vest("pools", 140, 5000), vest("", 60, 2000), vest("split", 120, 3000)],
        "preds": ["C08."],
        "rule": VEST_RULE,
        "level_text": "Coq theorems for every amount, free fraction in [0,1], pool, restart flag and time: the code's trunc(amount - round18(amount*free)) "
                      "is the documented integer part of amount*(1-free); a successful send creates an absent recipient, moves exactly the amount, "
                      "sets the schedule by the restart flag, grows sent by the amount, and fails above what is locked; direct creation moves "
                      "exactly the coins and vests them all between start and end. Compared with the real keepers on generated histories.",
    },
    "C09": {
        "title": "Custom messages can never replace or alter an existing account",
        "model": "Vest.v: step over all vesting messages; Sig.v: create_account (allowed-outcome set)",
        "runs": [vest("", 120, 4000), vest("split", 60, 2000), sweep()],
        "preds": ["C09."],
        "rule": VEST_RULE + "; C09 compares the serialized x/auth record of every pre-existing tracked address before and after each message",
        "level_text": "Coq theorem for every world, every vesting-module message with any signer and payload and every existing address: the account "
                      "record is unchanged, except that a successful split/move signed by that address reduces its original vesting only; lifted to "
                      "whole histories. The real x/auth records are compared byte-for-byte before/after every generated message.",
    },
    "C15": {
        "title": "Signature registry: payload links are write-once, verification is sound",
        "model": "Sig.v: publish, store_signature, storage_key, verify (hash and X.509 check as oracles)",
        "runs": [{"kind": "sig", "profile": "", "n_quick": 240, "n_thorough": 8000, "per_shard": 15}],
        "preds": ["C15."],
        "rule": "sequences of 5-13 publish / store-signature / verify operations over 2 reference ids, 3 addresses and 6 real key pairs (4 ECDSA-P256, "
                "2 RSA-2048, self-signed certificates generated by the harness); 65% start with publish+sign+verify of one record, followed by "
                "single-field mutations (tampered signature, other certificate, wrong algorithm, not base64 / not PEM, malformed JSON, other address, "
                "other or malformed reference id, re-publication under a present key, empty link); the module's message server and query run on the "
                "real keeper; the model's hash and X.509 oracles are tables computed by the harness with Go's crypto directly; non-trivial = at least "
                "one verification reported valid; distinct = distinct operation lists",
        "partial": ["sha256/hex and the X.509 signature check are oracles (section variables); the cryptographic step itself is not proved"],
        "level_text": "Coq theorems with hashing and the X.509 check as section variables: a published link stays unchanged under every later message "
                      "sequence (write-once, any length); publication on a present key is refused; verification reports valid iff a signature object is "
                      "stored under hash(addr:ref), a link under hash(ref), and the oracle accepts (stored certificate, stored algorithm, "
                      "hash(addr:ref:link), stored signature), returning the stored fields unchanged; malformed requests are errors; under a "
                      "collision-free hash another address / link changes the slot / payload. Real ECDSA and RSA signatures are verified through the "
                      "module and compared with the model and an independent crypto/x509 oracle on every run.",
    },
    "C16": {
        "title": "The v1.2.0 upgrade and store migrations preserve locked value",
        "model": "Upgrade.v: migrate_pool, upgrade_pools (ModifyVestingPoolsState), shift_account; Migrate.v: migrate_minter_v3, migrate_distr_v3, "
                 "migrate_vesting_params_v3, share_from_percent, conv_periodic",
        "runs": [{"kind": "upgrade", "profile": "", "n_quick": 300, "n_thorough": 10000, "per_shard": 20, "env": {"TZ": "UTC"}},
                 {"kind": "upgrade", "profile": "tz", "n_quick": 150, "n_thorough": 5000, "per_shard": 20, "env": {"TZ": "Europe/Warsaw"}},
                 {"kind": "migrate", "profile": "", "n_quick": 400, "n_thorough": 12000, "per_shard": 200},
                 {"kind": "upgrade", "profile": "handler", "n_quick": 150, "n_thorough": 5000, "per_shard": 20, "env": {"TZ": "UTC"}}],
        "preds": ["C16."],
        "rule": "pre-upgrade stores generated from (VERIF_SEED, index): 0-4 owners incl./excl. the hard-coded pool owner, pools written in the legacy (v2) "
                "protobuf format with random sent / withdrawn histories, the validators pool with currently-locked exactly the split sum, one below, decided "
                "only by its withdrawn history, or far above; old vesting type present / absent; the four hard-coded accounts absent / base / continuous "
                "vesting with start and end anywhere in 2022-2024; the real v3.MigrateStore, UpdateVestingAccountTraces, ModifyVestingPoolsState and "
                "ModifyVestingAccountsState run on the store; the second run executes the same cases in a process with TZ=Europe/Warsaw; the owner's "
                "pools after the upgrade are compared with the Coq model; non-trivial = the split was applied; distinct = distinct (pools, constants) | "
                "parameter migrations: legacy (version 2) minter configurations (1-5 periods, first id 1-3, type string + optional linear / exponential "
                "configurations, stored sorted or shuffled; 45% perturbed: zero exponential amount, type string disagreeing with the configuration, unknown "
                "type, both configurations, missing / early end, id gap, first id 0, empty / malformed denomination, non-positive step, negative "
                "multiplier / amount), legacy distributor sub-distributor lists (valid and perturbed) and vesting denominations are written into the "
                "x/params subspaces, the module's own Migrator.Migrate2to3 runs, and the parameters the keeper then returns are compared with the Coq "
                "model; the minter state is written with the legacy protobuf type and read back through the keeper; three blocks are minted under the "
                "migrated parameters and compared with an exact-rational schedule computed from the legacy values; the v1.1.0 percent and "
                "periodic-reduction conversions run through the real v2.MigrateParams on amino-JSON legacy values | handler profile: an application whose "
                "genesis leaves the interchain-accounts module uninitialised (as before v1.2.0), legacy pool store, parameters in x/params, module versions 2: "
                "the registered v1.2.0 handler runs through UpgradeKeeper.ApplyUpgrade",
        "partial": ["the handler as a whole (ICA module initialisation, RunMigrations over the version map, then the three v120 functions) is executed through "
                    "x/upgrade's ApplyUpgrade in the `handler` profile and its result compared with the model of the pool split; the model does not contain "
                    "x/upgrade, the module manager or the ICA module"],
        "level_text": "Coq theorems for every pre-upgrade pool list and any split constants: the v2->v3 migration keeps every pool's amounts, history and "
                      "lock period; the validators-pool split, when applied, keeps the total locked, every pre-existing pool's sent/withdrawn and lock "
                      "period, takes exactly the sum from the validators pool, appends exactly the configured pools with sent = withdrawn = 0, and "
                      "preserves the per-pool solvency bounds; it is applied completely or not at all; shifted accounts keep their amounts for any "
                      "calendar function. Parameter migrations (2 -> 3): whatever the minter migration stores validates and equals the legacy "
                      "description read off the configurations present (so every block and inflation query behaves as the legacy schedule "
                      "prescribes, ids / end times / current period kept); it is refused exactly when the denomination is invalid or an exponential "
                      "amount is zero; the distributor's sub-distributors are stored unchanged iff valid. The real migration and upgrade functions "
                      "run on generated legacy stores, incl. in a second process under another time zone (F7), with the registered vesting "
                      "invariants evaluated afterwards.",
    },
    "C17": {
        "title": "Genesis lineage of vesting accounts and vesting summaries are accurate",
        "model": "Vest.v: traces in send/split, summary; AccountsProofs.v: Derived; UpgradeTraces.v: migrate_traces, mark_traces (the recorded accounts through the v1.2.0 upgrade)",
        "runs": [vest("", 120, 4000), vest("split", 80, 3000),
                 {"kind": "upgrade", "profile": "", "n_quick": 150, "n_thorough": 5000, "per_shard": 20, "env": {"TZ": "UTC"}},
                 {"kind": "upgrade", "profile": "handler", "n_quick": 30, "n_thorough": 600, "per_shard": 20, "env": {"TZ": "UTC"}},
                 vgenesis(120, 4000)],
        "preds": ["C17."],
        "rule": VEST_RULE + "; the harness keeps an independent lineage oracle and recomputes both summaries from bank/auth state; the v1.2.0 upgrade on generated legacy stores (where the genesis marks of the pools come from)",
        "level_text": "Coq theorems: for every history (any length, any depth of split chains) an address is recorded genesis-derived iff it is "
                      "Derived (inductive definition of the property) — both directions; both summary queries equal the sums recomputed from "
                      "account and bank state, delegated = sum of min(vesting, delegated vesting), pools = ledger total in every solvent world. "
                      "Trace table and both queries are compared with the model and with an independent oracle on every generated history. Where the lineage of the "
                      "accounts recorded before v1.2.0 comes from (C17_upgrade_records_the_documented_lineage): on every v1.1.0 store the handler's migration followed by "
                      "its marking records every account under its address with its id and exactly the documented flags; compared with the real functions "
                      "(and with the whole registered handler) on generated legacy stores.",
    },
}
