#!/usr/bin/env python3
"""Replaces the seed table of DESIGN.md §10 by the output of bin/mkseedmeta.py (given as a file)."""
import sys, os
ROOT = os.path.dirname(os.path.dirname(os.path.abspath(__file__)))
p = os.path.join(ROOT, "DESIGN.md")
L = open(p).read().split("\n")
i = next(k for k, l in enumerate(L) if l.startswith("| seed | property"))
j = i
while j < len(L) and L[j].startswith("|"):
    j += 1
T = [l for l in open(sys.argv[1]).read().split("\n") if l.startswith("|")]
L[i:j] = T
open(p, "w").write("\n".join(L))
print("rows", len(T) - 2)
