#!/usr/bin/env python3
"""Writes seeded/<name>/meta.json for every confirmed seeded change from the agent's report (meta.agent.json),
my confirmation log (confirm.log) and the log of running the checks against it (detect.log); prints the table for DESIGN.md."""
import json, os, re, glob
ROOT = os.path.dirname(os.path.dirname(os.path.abspath(__file__)))
rows = []
for d in sorted(glob.glob(os.path.join(ROOT, "seeded", "C*"))):
    name = os.path.basename(d)
    am = json.load(open(os.path.join(d, "meta.agent.json")))
    confirm = open(os.path.join(d, "confirm.log"), errors="replace").read() if os.path.exists(os.path.join(d, "confirm.log")) else ""
    m = re.search(r"RESULT demo_without=(\d+) build=(\d+) demo_with=(\d+) new_failures=(\d+)", confirm)
    democmd = open(os.path.join(d, "demo_cmd.txt")).read().strip().splitlines()
    democmd = next((l for l in democmd if "go test" in l), "")
    det = open(os.path.join(d, "detect.log"), errors="replace").read() if os.path.exists(os.path.join(d, "detect.log")) else ""
    viol = [l for l in det.splitlines() if "VIOLATION" in l]
    detail = {}
    for l in det.splitlines():
        if l.startswith("{"):
            try: detail = json.loads(l)
            except Exception: pass
    prop = am.get("property", name[:3])
    meta = {
        "name": name,
        "property": prop,
        "breaks": am.get("summary", ""),
        "needs_to_manifest": am.get("needs_to_manifest", ""),
        "files_touched": am.get("files_touched", []),
        "origin": "fresh sub-agent given only the property text and a scratch git worktree of /repo under /tmp (round %s)" % (name.split("_")[1] if "_" in name else "1"),
        "confirmed_by_me": {
            "how": "bin/seed_confirm.sh in the scratch worktree: demonstration test without the change, git apply, go build ./..., demonstration test with the change, "
                   "go test -vet=off ./app/... ./x/... ./tests/app/... with the demonstration moved away (compared with the known time-zone dependent failures)",
            "demo_cmd": democmd,
            "demo_without_change_exit": int(m.group(1)) if m else None,
            "build_with_change_exit": int(m.group(2)) if m else None,
            "demo_with_change_exit": int(m.group(3)) if m else None,
            "new_failures_in_existing_tests": int(m.group(4)) if m else None,
        },
        "checks_run_against_it": {
            "how": ("bin/seedtest.sh %s %s (git -C /repo apply patch.diff; bin/check %s --tier quick; git -C /repo checkout -- .)" % (name, prop, prop)) if ("_" not in name or name.endswith("_2")) else
                   ("bin/seedtest_iso.sh %s %s (private copies of /verif and of /repo's working tree; patch.diff applied to the copy; REPO=<copy> bin/check %s --tier quick; copies removed)" % (name, prop, prop)),
            "detected": bool(viol),
            "violation_line": viol[0].split("] ", 1)[-1] if viol else None,
            "failing_input_found": bool(viol) and "no-failing-input-found" not in viol[0],
            "what": detail.get("what"), "predicate": detail.get("predicate"), "kind": detail.get("kind"), "profile": detail.get("profile"),
            "case": detail.get("case"), "step": detail.get("step"), "detail": (detail.get("detail") or "")[:400],
        },
    }
    json.dump(meta, open(os.path.join(d, "meta.json"), "w"), indent=1)
    short = am.get("summary", "").split(". ")[0][:230].replace("|", "/").replace("\n", " ")
    rows.append((name, prop, short, "yes" if viol else "NO", (detail.get("predicate") or detail.get("what") or "")[:60],
                 "yes" if (viol and "no-failing-input-found" not in viol[0]) else "no"))
print("| seed | property | change | caught | by (predicate on the implementation / correspondence) | failing input |")
print("|---|---|---|---|---|---|")
for r in rows:
    print("| %s | %s | %s | %s | `%s` | %s |" % r)
