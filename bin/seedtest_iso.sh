#!/bin/bash
# seedtest_iso.sh <seed name> <property ids...>: the same as seedtest.sh but on private copies, so that it can run in the
# background while /verif and /repo are being worked on: copies /verif (committed + built files) to /tmp/sv_<name> and /repo's
# working tree to /tmp/sr_<name>, applies seeded/<name>/patch.diff to the copy, runs the quick checks with REPO=<copy>, stores
# detect.log in /verif/seeded/<name>/ and removes both copies.
NAME=$1; shift
D=/verif/seeded/$NAME
SV=/tmp/sv_$NAME; SR=/tmp/sr_$NAME
rm -rf $SV $SR
rsync -a --exclude work --exclude replays --exclude .git /verif/ $SV/
rsync -a --exclude .git /repo/ $SR/
( cd $SR && git apply --unsafe-paths $D/patch.diff 2>/dev/null || patch -s -p1 < $D/patch.diff ) || { echo "patch failed"; exit 3; }
: > $D/detect.log
cd $SV
for P in "$@"; do
  OUT=$(REPO=$SR bin/check $P --tier quick 2>&1 | grep -v "WARNING conda"); RC=$?
  echo "$OUT" | grep -E "VIOLATION|^OK|KNOWN" | sed "s/^/[$P] /" | tee -a $D/detect.log
  V=$(echo "$OUT" | grep -o "replay=[^ ]*" | head -1 | cut -d= -f2)
  if [ -n "$V" ]; then python3 - "$V" >> $D/detect.log <<'PY'
import json,sys
d=json.load(open(sys.argv[1])); d.pop('all_failures',None); d.pop('all_mismatches',None); d.pop('model_observation',None); d.pop('theorems_no_longer_tied_to_code',None)
print(json.dumps(d)[:800])
PY
  fi
done
rm -rf $SV $SR
