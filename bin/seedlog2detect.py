#!/usr/bin/env python3
"""seedlog2detect.py <log of bin/seedrun.sh> : writes seeded/<name>/detect.log from the SEED / REPLAY lines of a run."""
import sys, os, re, collections
ROOT = os.path.dirname(os.path.dirname(os.path.abspath(__file__)))
out = collections.defaultdict(list)
for l in open(sys.argv[1], errors="replace"):
    m = re.match(r"SEED (\S+) (\S+) :: (.*)", l)
    if m:
        out[m.group(1)].append("[%s] %s" % (m.group(2), m.group(3).strip()))
    m = re.match(r"REPLAY (\S+) (\{.*)", l)
    if m:
        out[m.group(1)].append(m.group(2).strip())
for name, lines in out.items():
    d = os.path.join(ROOT, "seeded", name)
    if os.path.isdir(d):
        open(os.path.join(d, "detect.log"), "w").write("\n".join(lines) + "\n")
        print(name, lines[0][:100])
