#!/bin/bash
# seedtest.sh <seed name> <property ids...>: apply seeded/<name>/patch.diff to /repo, run the quick checks, undo.
NAME=$1; shift
D=/verif/seeded/$NAME
cd /verif
git -C /repo diff --quiet || { echo "/repo not clean"; exit 2; }
git -C /repo apply $D/patch.diff || exit 3
: > $D/detect.log
for P in "$@"; do
  cp evidence/$P.json /tmp/ev_$P.json.bak 2>/dev/null
  OUT=$(bin/check $P --tier quick 2>&1 | grep -v "WARNING conda"); RC=$?
  echo "$OUT" | grep -E "VIOLATION|^OK|KNOWN" | sed "s/^/[$P] /" | tee -a $D/detect.log
  V=$(echo "$OUT" | grep -o "replay=[^ ]*" | head -1 | cut -d= -f2)
  if [ -n "$V" ]; then python3 - "$V" >> $D/detect.log <<'PY'
import json,sys
d=json.load(open(sys.argv[1])); d.pop('all_failures',None); d.pop('all_mismatches',None); d.pop('model_observation',None); d.pop('theorems_no_longer_tied_to_code',None)
print(json.dumps(d)[:800])
PY
  fi
  cp /tmp/ev_$P.json.bak evidence/$P.json 2>/dev/null
done
git -C /repo checkout -- .
git -C /repo status --short | head -3
