#!/bin/bash
# seed_confirm.sh <PID> : confirm a seeded change produced in /tmp/seed_<PID>/SEED_OUT inside that scratch worktree,
# then store it as /verif/seeded/<PID>/ (patch.diff, demo, meta.json + confirm.log).
set -u
PID=$1; NAME=${2:-$PID}
WT=${WT:-/tmp/seed_$PID}; OUT=$WT/SEED_OUT
export GOFLAGS=-mod=mod GOPROXY=off GOSUMDB=off GOTOOLCHAIN=local
cd $WT || exit 2
LOG=/tmp/seed_confirm_$NAME.log; : > $LOG
git checkout -- . 2>/dev/null
DEMO_CMD=$(grep -m1 "go test" $OUT/demo_cmd.txt | sed 's/^[#$ ]*//')
echo "demo cmd: $DEMO_CMD" >> $LOG
# packages touched by the patch
PKGS=$(grep '^+++ b/' $OUT/patch.diff | sed 's#^+++ b/##' | xargs -n1 dirname | sort -u | sed 's#^#./#' | tr '\n' ' ')
mv $OUT $WT/../SEED_OUT_$NAME.tmp   # keep SEED_OUT out of ./... builds
OUT=$WT/../SEED_OUT_$NAME.tmp
echo "== demo without patch (expect PASS)" >> $LOG
( eval "$DEMO_CMD" ) >> $LOG 2>&1; R0=$?
git apply $OUT/patch.diff || { echo "patch does not apply" >> $LOG; exit 3; }
echo "== build with patch" >> $LOG
go build ./... >> $LOG 2>&1; RB=$?
echo "== demo with patch (expect FAIL)" >> $LOG
( eval "$DEMO_CMD" ) >> $LOG 2>&1; R1=$?
echo "== existing tests with patch (demo file moved away)" >> $LOG
DEMOF=$(git status --porcelain | grep '^??' | awk '{print $2}' | grep '_test.go$' | head -5)
mkdir -p /tmp/demo_hold_$NAME; for f in $DEMOF; do mkdir -p /tmp/demo_hold_$NAME/$(dirname $f); mv $f /tmp/demo_hold_$NAME/$f; done
go test -vet=off -count=1 ./app/... ./x/... ./tests/app/... 2>&1 | grep -v "^ok\|no test files" > /tmp/seed_tests_$NAME.txt
grep -- "--- FAIL" /tmp/seed_tests_$NAME.txt | sort > /tmp/seed_fails_$NAME.txt
cat /tmp/seed_fails_$NAME.txt >> $LOG
for f in $DEMOF; do mv /tmp/demo_hold_$NAME/$f $f; done
git checkout -- .
NEWFAIL=$(grep -v "TestCreateVestingAccount\|TestMsgCreateVestingAccount_ValidateBasic" /tmp/seed_fails_$NAME.txt | wc -l)
echo "RESULT demo_without=$R0 build=$RB demo_with=$R1 new_failures=$NEWFAIL" | tee -a $LOG
if [ $R0 -eq 0 ] && [ $RB -eq 0 ] && [ $R1 -ne 0 ] && [ $NEWFAIL -eq 0 ]; then
  D=/verif/seeded/$NAME; mkdir -p $D
  cp $OUT/patch.diff $D/patch.diff; cp $OUT/meta.json $D/meta.agent.json; grep -m1 "go test" $OUT/demo_cmd.txt > $D/demo_cmd.txt
  for f in $OUT/*_test.go*; do b=$(basename $f); cp $f $D/${b%.txt}.txt; done
  cp $LOG $D/confirm.log
  echo CONFIRMED $NAME
else
  echo NOT-CONFIRMED $NAME
fi
mv $OUT $WT/SEED_OUT
