#!/usr/bin/env python3
"""mkseedprompts.py <round> [first last]: write /tmp/prompts/<id>_r<round>.txt, the complete instruction file handed to one fresh
sub-agent per property (property text + summaries of the earlier seeded changes for it + its scratch worktree /tmp/seed_<id>).
Nothing from /verif but the property text and those summaries goes in."""
import json, os, sys
rnd = int(sys.argv[1]); first = int(sys.argv[2]) if len(sys.argv) > 2 else 1; last = int(sys.argv[3]) if len(sys.argv) > 3 else 20
props = {}
for l in open('/verif/properties.jsonl'):
    p = json.loads(l); props[p['id']] = p
HEAD = '''You are helping test a verification effort for the Go repository darekchudzik/c4e-chain (a Cosmos-SDK application chain: modules x/cfeminter, x/cfedistributor, x/cfevesting, x/cfesignature, upgrade handlers under app/upgrades). You work ONLY in your own scratch git worktree: {wt}  (never touch /repo or /verif, never read /verif).

Environment: no network. In every shell first run:
  export GOFLAGS=-mod=mod GOPROXY=off GOSUMDB=off GOTOOLCHAIN=local
`go build ./...` takes ~30-60 s warm; `go test -vet=off -count=1 ./x/... ./app/... ./tests/app/...` a few minutes. Tests that ALREADY FAIL on the unchanged tree (time-zone dependent; ignore them): TestCreateVestingAccount, TestCreateVestingAccountAccountExists, TestCreateVestingAccountNotEnoughFunds (x/cfevesting/keeper), TestMsgCreateVestingAccount_ValidateBasic (x/cfevesting/types). tests/e2e needs docker: ignore.

This semantic property of the code base is supposed to hold:

  {pid} - {title}
  {stmt}

Your task: write ONE realistic change to the non-test source code (the kind of slip a maintainer could really make: a refactoring error, a wrong variable, an off-by-one, a dropped guard, a cache, a reordered statement, a wrong rounding mode, two sites that each look fine alone ...) that BREAKS this property while
  (a) the repository still compiles (`go build ./...`),
  (b) ALL existing tests still pass (apart from the always-failing ones listed above), unedited - do not change or delete any existing test,
  (c) the breakage needs something specific to manifest: a particular multi-step sequence of operations, an unusual but valid input/configuration, a particular block-time partition, a fault at a particular point, a particular interleaving, or two cooperating sites - NOT something that ordinary use would expose at once.
Earlier rounds already produced these changes for this property; yours must use a DIFFERENT mechanism, a different function/site and preferably a different clause of the property (look for code paths and clauses none of them touched):
{prev}

Also write a demonstration: a new Go test file (name it seeded_demo_test.go, placed in a suitable existing package of the repo, using the repo's own test helpers such as testutil/...) with one test that PASSES on the unchanged tree and FAILS with your change, asserting the property clause that breaks.

Deliver everything in the directory {wt}/SEED_OUT/ :
  - patch.diff : `git diff` of ONLY the non-test source change (must apply with `git apply` to the clean tree; do not include the demo test in it)
  - seeded_demo_test.go.txt : a copy of the demo test file, and leave the real demo test file in place in the worktree (untracked) at its package path
  - demo_cmd.txt : one line, the exact command run from the worktree root that runs only the demo, e.g.  go test -vet=off -count=1 ./x/cfeminter/keeper/ -run 'TestSeededDemoXyz$'
  - meta.json : {{"property": "{pid}", "summary": "<what was changed, where, and why it breaks the property>", "needs_to_manifest": "<what specific input/sequence/fault is required>", "files_touched": [...], "tests_run": "<what you ran and the outcomes>", "demo_fails_with_patch": true, "demo_passes_without_patch": true}}
Leave the worktree with the source change REVERTED (git checkout -- . ; only the untracked demo test and SEED_OUT remain). Verify yourself before finishing: demo passes without the change, fails with it; build OK; the existing test packages you could affect still pass with the change. Keep the change small (a few lines to a few dozen lines). In your final answer give a 5-line summary.'''
os.makedirs('/tmp/prompts', exist_ok=True)
for i in range(first, last + 1):
    pid = 'C%02d' % i; p = props[pid]
    prev = []
    for n in range(1, rnd):
        suf = '' if n == 1 else '_%d' % n
        f = '/verif/seeded/%s%s/meta.agent.json' % (pid, suf)
        if os.path.exists(f):
            prev.append('  %d) %s' % (n, json.load(open(f))['summary'][:330].replace('\n', ' ')))
    open('/tmp/prompts/%s_r%d.txt' % (pid, rnd), 'w').write(
        HEAD.format(wt='/tmp/seed_' + pid, pid=pid, title=p['title'], stmt=p['statement'], prev='\n'.join(prev)))
print('wrote', last - first + 1, 'prompts')
