#!/usr/bin/env python3
"""Regenerate MANIFEST.json from bin/props_table.py (claimed properties) and the fixed property list."""
import json, os, sys
ROOT = os.path.dirname(os.path.dirname(os.path.abspath(__file__)))
sys.path.insert(0, os.path.join(ROOT, "bin"))
from props_table import PROPS
ids = [json.loads(l)["id"] for l in open(os.path.join(ROOT, "properties.jsonl"))]
NA = {}
if os.path.exists(os.path.join(ROOT, "bin", "not_applicable.json")):
    NA = json.load(open(os.path.join(ROOT, "bin", "not_applicable.json")))
checks = []
for pid in ids:
    if pid not in PROPS:
        continue
    c = PROPS[pid]
    checks.append({
        "property_id": pid,
        "quick_cmd": f"bin/check {pid} --tier quick",
        "thorough_cmd": f"bin/check {pid} --tier thorough",
        "evidence_file": f"/verif/evidence/{pid}.json",
        "replay_cmd_template": f"bin/check {pid} --replay {{path}}",
        "engine": "coq-model+correspondence",
        "level_claimed": {"category": "proof", "text": c["level_text"], "design_ref": f"DESIGN.md section 6 {pid}"},
        "level_note": c.get("level_note", "Trusted: Coq 8.16.1 kernel + vm_compute, the hand-written Gallina model (cosmos-sdk x/bank, x/auth, x/staking, "
                      "baseapp message execution are modelled, not verified), the Go harness and the comparison; the theorems are about the model, "
                      "which is tied to the code by the differential correspondence check on every run. " + "; ".join(c.get("partial", []))),
        "technique": c.get("technique", "machine-checked proof in Coq over a hand-written executable model + differential correspondence check against the real application"),
    })
man = {
    "version": 1,
    "setup_cmd": "bin/setup",
    "hooks": {
        "guard": "verif",
        "enable": "go build -tags verif (no hook files are needed at present; the tag is reserved)",
        "baseline_off_cmd": "cd /repo && GOFLAGS=-mod=mod GOPROXY=off go test -vet=off -count=1 ./...",
        "source_commits": [],
        "add_only": True,
    },
    "engines": [{
        "name": "coq-model+correspondence",
        "path": "/verif/coq, /verif/harness, /verif/bin/check",
        "serves_properties": [c["property_id"] for c in checks],
        "kind_free_text": "Coq 8.16 proofs over a hand-written executable model; the Go harness runs the real application and the model is evaluated by vm_compute on the same cases",
    }],
    "checks": checks,
    "not_applicable": [{"property_id": pid, "reason": NA.get(pid, "check under construction; not yet claimed")} for pid in ids if pid not in PROPS],
    "notes": "See DESIGN.md. KNOWN_FINDINGS.txt lists recorded findings and repaired defects.",
}
json.dump(man, open(os.path.join(ROOT, "MANIFEST.json"), "w"), indent=1)
print("claimed:", [c["property_id"] for c in checks])
