#!/bin/bash
# seedrun.sh <name:prop> ... : for `vp run --with-repo -- bin/seedrun.sh C01_5:C01 ...` — runs in a snapshot of the committed /verif
# (the working directory) against private copies of the snapshot of /repo ($VP_RUN_REPO), so neither /verif nor /repo being worked on
# disturbs it. Builds the snapshot first, then for every seeded change: copy the repo snapshot, apply seeded/<name>/patch.diff,
# REPO=<copy> bin/check <prop> --tier quick; prints "SEED <name> <prop> :: <result lines>" and the trimmed replay.
set -u
export GOFLAGS=-mod=mod GOPROXY=off GOSUMDB=off GOTOOLCHAIN=local
SRC=${VP_RUN_REPO:-/repo}
bin/setup > setup.log 2>&1 || { echo "SETUP FAILED"; tail -20 setup.log; exit 2; }
for spec in "$@"; do
  NAME=${spec%%:*}; P=${spec##*:}
  SR=/tmp/vr_$NAME; rm -rf $SR; rsync -a --exclude .git $SRC/ $SR/
  ( cd $SR && patch -s -p1 < $OLDPWD/seeded/$NAME/patch.diff ) || { echo "SEED $NAME $P :: patch failed"; continue; }
  OUT=$(REPO=$SR bin/check $P --tier quick 2>&1)
  echo "$OUT" | grep -E "VIOLATION|^OK" | sed "s/^/SEED $NAME $P :: /"
  V=$(echo "$OUT" | grep -o "replay=[^ ]*" | head -1 | cut -d= -f2)
  if [ -n "$V" ]; then python3 - "$V" "$NAME" <<'PY'
import json,sys
d=json.load(open(sys.argv[1]))
for k in ('all_failures','all_mismatches','model_observation','theorems_no_longer_tied_to_code'): d.pop(k,None)
print("REPLAY %s %s" % (sys.argv[2], json.dumps(d)[:800]))
PY
  fi
  rm -rf $SR
done
echo SEEDRUN DONE
